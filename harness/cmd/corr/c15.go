package main

// C15 — the job runs only on a full, live assembly and checkpointing resumes.
//
// Trace validation of the REAL jobs.Job (serial task queue, registry, liveness, asynchronous start) with the REAL
// snapshots.Store inside it and REAL operator.Operator processes (in-flight checkpoint record, HandleDeploy,
// barrier alignment through HandleEvent). Source runners, the source splitter, the clock (observable ticker stop)
// and the storage location are harness fakes injected through the constructor parameters the code already has.
// Every op is one atomic action of the model in Model/JobFsm.lean; the harness waits (bounded) for the job to
// become quiescent after each op, so the recorded sequence is a linearisation.

import (
	"bytes"
	"context"
	"encoding/base64"
	"encoding/binary"
	"fmt"
	"io"
	"iter"
	"log/slog"
	"sort"
	"strconv"
	"strings"
	"sync"
	"sync/atomic"
	"time"

	gproto "google.golang.org/protobuf/proto"
	"reduction.dev/reduction-protocol/handlerpb"
	"reduction.dev/reduction-protocol/jobconfigpb"
	"reduction.dev/reduction/batching"
	"reduction.dev/reduction/clocks"
	"reduction.dev/reduction/config"
	"reduction.dev/reduction/connectors"
	"reduction.dev/reduction/jobs"
	"reduction.dev/reduction/proto"
	"reduction.dev/reduction/proto/jobpb"
	"reduction.dev/reduction/proto/snapshotpb"
	"reduction.dev/reduction/proto/workerpb"
	"reduction.dev/reduction/storage/locations"
	"reduction.dev/reduction/storage/objstore"
	"reduction.dev/reduction/workers"
	"reduction.dev/reduction/workers/operator"
	"reduction.dev/reduction/workers/sourcerunner"
	"verif/harness/lib"
)

func init() { register("C15", propC15) }

// c15W bounds every wait for the real code. A wait that expires is an observation ("timeout-..."), never a verdict by
// itself; after a few of them in one process (the code under test is stuck in many cases) the bound shrinks so that
// the run still ends quickly.
var c15Timeouts atomic.Int32

func c15W() time.Duration {
	if c15Timeouts.Load() >= 3 {
		return 400 * time.Millisecond
	}
	return 5 * time.Second
}

// ---------------------------------------------------------------- clock with observable ticker stop

type c15Ticker struct {
	fn      func(*clocks.EveryContext)
	stopped bool
}

type c15Clock struct {
	mu      sync.Mutex
	now     time.Time
	tickers []*c15Ticker
	everyCh chan struct{}
}

func (c *c15Clock) Now() time.Time {
	c.mu.Lock()
	defer c.mu.Unlock()
	return c.now
}

func (c *c15Clock) Every(d time.Duration, fn func(*clocks.EveryContext), label string) *clocks.Ticker {
	t := &c15Ticker{fn: fn}
	c.mu.Lock()
	c.tickers = append(c.tickers, t)
	c.mu.Unlock()
	select {
	case c.everyCh <- struct{}{}:
	default:
	}
	return clocks.VerifNewTicker(func() {
		c.mu.Lock()
		t.stopped = true
		c.mu.Unlock()
	}, func() {})
}

func (c *c15Clock) alive() []*c15Ticker {
	c.mu.Lock()
	defer c.mu.Unlock()
	var out []*c15Ticker
	for _, t := range c.tickers {
		if !t.stopped {
			out = append(out, t)
		}
	}
	return out
}

// ---------------------------------------------------------------- fake source + splitter

type c15Source struct{ w *c15World }

func (s c15Source) Validate() error { return nil }
func (s c15Source) NewSourceSplitter(ids []string, hooks connectors.SourceSplitterHooks, errChan chan<- error) connectors.SourceSplitter {
	return &c15Splitter{w: s.w, ids: ids, hooks: hooks}
}
func (s c15Source) NewSourceReader(hooks connectors.SourceReaderHooks) connectors.SourceReader {
	panic("unused")
}
func (s c15Source) ProtoMessage() *jobconfigpb.Source { return &jobconfigpb.Source{} }

type c15Splitter struct {
	connectors.UnimplementedSourceSplitter
	w     *c15World
	ids   []string
	hooks connectors.SourceSplitterHooks
}

func (s *c15Splitter) IsSourceSplitter() {}
func (s *c15Splitter) Start(ckpt *snapshotpb.SourceCheckpoint) error {
	ck := "none"
	if ckpt != nil {
		ck = strconv.FormatUint(ckpt.CheckpointId, 10)
	}
	as := map[string][]*workerpb.SourceSplit{}
	for i, id := range s.ids {
		as[id] = []*workerpb.SourceSplit{{SplitId: strconv.Itoa(i), SourceId: "c15"}}
	}
	s.hooks.AssignSplits(as)
	select {
	case s.w.startCh <- ck:
	default:
	}
	return nil
}
func (s *c15Splitter) Close() error                                { return nil }
func (s *c15Splitter) NotifySplitsFinished(id string, sp []string) {}
func (s *c15Splitter) Checkpoint() []byte                          { return []byte("splitter") }

// ---------------------------------------------------------------- nodes

type c15DeployCall struct {
	kind  byte // 'o' or 's'
	id    int
	opReq *workerpb.DeployOperatorRequest
	srReq *workerpb.DeploySourceRunnerRequest
	resp  chan error
}

func c15ID(i int) string { return "n" + strconv.Itoa(i) }
func c15Num(id string) int {
	n, err := strconv.Atoi(strings.TrimPrefix(id, "n"))
	if err != nil {
		return -1
	}
	return n
}

func (w *c15World) gate(call *c15DeployCall) error {
	if w.autoDeploy.Load() {
		return nil // `raceprobe`: deployments succeed at once
	}
	select {
	case w.deployCh <- call:
	case <-time.After(4 * c15W()):
		return fmt.Errorf("harness: deploy gate full")
	}
	select {
	case err := <-call.resp:
		return err
	case <-time.After(6 * c15W()):
		return fmt.Errorf("harness: deploy never released")
	}
}

// the job's handle on a source runner (fake)
type c15SrHandle struct {
	w  *c15World
	id int
}

func (s *c15SrHandle) Host() string { return "h" }
func (s *c15SrHandle) ID() string   { return c15ID(s.id) }
func (s *c15SrHandle) Deploy(ctx context.Context, req *workerpb.DeploySourceRunnerRequest) error {
	return s.w.gate(&c15DeployCall{kind: 's', id: s.id, srReq: req, resp: make(chan error, 1)})
}
func (s *c15SrHandle) AssignSplits(ctx context.Context, sp []*workerpb.SourceSplit) error {
	s.w.mu.Lock()
	s.w.assigned = append(s.w.assigned, s.id)
	cl := s.w.cluster
	s.w.mu.Unlock()
	s.w.parkIfHung('s', s.id)
	if cl != nil {
		return cl.assignSplits(s.id)
	}
	return nil
}
func (s *c15SrHandle) StartCheckpoint(ctx context.Context, id uint64) error {
	s.w.mu.Lock()
	s.w.ckStarts = append(s.w.ckStarts, [2]uint64{uint64(s.id), id})
	cl := s.w.cluster
	s.w.mu.Unlock()
	if g := s.w.startGate.Load(); g != nil { // `tickb`/`tickc`: the StartCheckpoint calls park until `tickc`
		g.arrived <- struct{}{}
		select {
		case <-g.release:
		case <-time.After(8 * c15W()):
		}
	}
	if cl != nil {
		return cl.startCheckpoint(s.id, id)
	}
	return nil
}

// the job's handle on an operator process (the process itself is a real operator.Operator)
type c15OpHandle struct {
	proto.UnimplementedOperator
	w  *c15World
	id int
}

func (o *c15OpHandle) Host() string { return "h" }
func (o *c15OpHandle) ID() string {
	// `ticka`: the ticker callback is parked inside its first read of the assembly's operator ids (the job is
	// quiescent while the gate is armed, so the first caller is the callback)
	if g := o.w.idGate.Load(); g != nil && o.w.idGate.CompareAndSwap(g, nil) {
		g.arrived <- struct{}{}
		select {
		case <-g.release:
		case <-time.After(8 * c15W()):
		}
	}
	return c15ID(o.id)
}
func (o *c15OpHandle) Deploy(ctx context.Context, req *workerpb.DeployOperatorRequest) error {
	return o.w.gate(&c15DeployCall{kind: 'o', id: o.id, opReq: req, resp: make(chan error, 1)})
}
func (o *c15OpHandle) UpdateRetainedCheckpoints(ctx context.Context, ids []uint64) error {
	// the job's retained-ids goroutine (it reads j.assembly off the task queue) reached this operator
	o.w.mu.Lock()
	o.w.retained = append(o.w.retained, c15Retain{op: o.id, ids: append([]uint64(nil), ids...)})
	o.w.mu.Unlock()
	select {
	case o.w.retainCh <- struct{}{}:
	default:
	}
	o.w.mu.Lock()
	h := o.w.hung[[2]int{'o', o.id}]
	o.w.mu.Unlock()
	if h {
		o.w.retainBlocked.Store(true)
	}
	o.w.parkIfHung('o', o.id)
	return nil
}

// what an operator process sees of the job
type c15JobForOp struct {
	proto.NoopJob
	w *c15World
}

func (j c15JobForOp) RegisterOperator(context.Context, *jobpb.NodeIdentity) error     { return nil }
func (j c15JobForOp) RegisterSourceRunner(context.Context, *jobpb.NodeIdentity) error { return nil }
func (j c15JobForOp) NotifySplitsFinished(context.Context, string, []string) error    { return nil }
func (j c15JobForOp) OperatorCheckpointComplete(ctx context.Context, req *snapshotpb.OperatorCheckpoint) error {
	res := j.w.storeCall(func() error { return j.w.job.HandleOperatorCheckpointComplete(ctx, req) })
	j.w.lastOpAck = res
	j.w.opAcked = true
	if res == "ok" || strings.HasPrefix(res, "ok ") {
		return nil
	}
	return fmt.Errorf("%s", res)
}

// the user handler of one operator process: records the keyed events it is handed (their tags)
type c15Handler struct {
	w  *c15World
	id int
}

func (h c15Handler) ProcessEventBatch(ctx context.Context, req *handlerpb.ProcessEventBatchRequest) (*handlerpb.ProcessEventBatchResponse, error) {
	var tags []int
	for _, e := range req.Events {
		if ke := e.GetKeyedEvent(); ke != nil {
			n, _ := strconv.Atoi(string(ke.Value))
			tags = append(tags, n)
		}
	}
	h.w.mu.Lock()
	h.w.handled[h.id] = append(h.w.handled[h.id], tags...)
	for _, t := range tags {
		for j, q := range h.w.queued[h.id] {
			if q == t {
				h.w.queued[h.id] = append(h.w.queued[h.id][:j:j], h.w.queued[h.id][j+1:]...)
				break
			}
		}
	}
	h.w.mu.Unlock()
	select {
	case h.w.handledCh <- struct{}{}:
	default:
	}
	return &handlerpb.ProcessEventBatchResponse{}, nil
}
func (c15Handler) KeyEventBatch(ctx context.Context, events [][]byte) ([][]*handlerpb.KeyedEvent, error) {
	return nil, nil
}

// the batcher's timer of one operator process, fired by the `flush` op
type c15Timer struct {
	mu sync.Mutex
	do func()
}

func (t *c15Timer) Set(d time.Duration, do func()) {
	t.mu.Lock()
	t.do = do
	t.mu.Unlock()
}
func (t *c15Timer) Stop() {
	t.mu.Lock()
	t.do = nil
	t.mu.Unlock()
}
func (t *c15Timer) take() func() {
	t.mu.Lock()
	defer t.mu.Unlock()
	return t.do
}

type c15Sink struct{}

func (c15Sink) Write([]byte) error { return nil }

// ---------------------------------------------------------------- world

type c15World struct {
	w, d      int
	job       *jobs.Job
	clk       *c15Clock
	ops       map[int]*operator.Operator
	deployed  map[int]bool
	deployCh  chan *c15DeployCall
	startCh   chan string
	batch     []*c15DeployCall
	mu        sync.Mutex
	assigned  []int
	ckStarts  [][2]uint64
	lastOpAck string
	opAcked   bool
	bmax      int
	timers    map[int]*c15Timer
	handled   map[int][]int // tags handed to each operator's handler since the harness last looked
	queued    map[int][]int // tags accepted by HandleEvent and not yet seen by the handler
	handledCh chan struct{}
	// real-worker cluster (c15_cluster.go): the deployments and checkpoint starts go to real worker processes
	cluster *c15Cluster
	// the ticker callback run in pieces (`ticka`/`tickb`/`tickc`): it is NOT a task of the job's queue
	idGate        atomic.Pointer[c15Gate]
	startGate     atomic.Pointer[c15Gate]
	tickCb        *c15TickCb
	autoDeploy    atomic.Bool
	loc           *c15Loc
	heldIDs       []uint64 // snapshots completed while the storage is held, oldest first
	retained      []c15Retain
	retainCh      chan struct{}
	retainText    string // retained-ids notifications observed during the current op
	pendingRetain []uint64
	opSrcs        map[int][]int // the source runners each operator was last deployed with
	// unresponsive members (`hang o|s <id>`): their AssignSplits / UpdateRetainedCheckpoints handlers never answer
	hung          map[[2]int]bool
	parkedCalls   atomic.Int32
	hangRelease   chan struct{}
	retainBlocked atomic.Bool // the job's retained-ids goroutine is waiting for such an operator
	stuckSeen     bool        // the job's task queue did not come back while a call was parked at such a member
	pubSeen       map[uint64]bool
}

// c15Loc serialises access to the in-memory storage location (the store writes and removes snapshot files from
// background goroutines; the repository's in-memory S3 double has no lock of its own).
type c15Loc struct {
	mu  sync.Mutex
	loc locations.StorageLocation
	// `holdpub`: writes of job snapshot files park until `relpub` (the store publishes a completed snapshot only
	// after its file is written)
	hold   atomic.Bool
	pmu    sync.Mutex
	parked map[string]chan struct{} // by file path
}

// the store's file name of job snapshot id: MaxUint64 - id, big endian, base64url
func c15SnapshotName(id uint64) string {
	seg := make([]byte, 8)
	binary.BigEndian.PutUint64(seg, ^id)
	return "job-" + base64.RawURLEncoding.EncodeToString(seg) + ".snapshot"
}

func (l *c15Loc) Write(path string, data io.Reader) (string, error) {
	if l.hold.Load() && strings.HasSuffix(path, ".snapshot") {
		ch := make(chan struct{})
		l.pmu.Lock()
		if l.parked == nil {
			l.parked = map[string]chan struct{}{}
		}
		l.parked[path[strings.LastIndex(path, "/")+1:]] = ch
		l.pmu.Unlock()
		select {
		case <-ch:
		case <-time.After(8 * c15W()):
		}
	}
	l.mu.Lock()
	defer l.mu.Unlock()
	return l.loc.Write(path, data)
}
func (l *c15Loc) Read(path string) ([]byte, error) {
	l.mu.Lock()
	defer l.mu.Unlock()
	return l.loc.Read(path)
}
func (l *c15Loc) List() iter.Seq2[string, error] {
	l.mu.Lock()
	defer l.mu.Unlock()
	type ent struct {
		p string
		e error
	}
	var all []ent
	for p, e := range l.loc.List() {
		all = append(all, ent{p, e})
	}
	return func(yield func(string, error) bool) {
		for _, x := range all {
			if !yield(x.p, x.e) {
				return
			}
		}
	}
}
func (l *c15Loc) URI(path string) (string, error) {
	l.mu.Lock()
	defer l.mu.Unlock()
	return l.loc.URI(path)
}
func (l *c15Loc) Copy(src string, dst string) error {
	l.mu.Lock()
	defer l.mu.Unlock()
	return l.loc.Copy(src, dst)
}
func (l *c15Loc) Remove(paths ...string) error {
	l.mu.Lock()
	defer l.mu.Unlock()
	return l.loc.Remove(paths...)
}

type c15Discard struct{}

func (c15Discard) Write(p []byte) (int, error) { return len(p), nil }

func newC15World(w, d, c0, bmax int) (*c15World, error) {
	mem, err := locations.NewS3Location(objstore.NewMemoryS3Service(), "s3://bucket/job")
	if err != nil {
		return nil, err
	}
	loc := &c15Loc{loc: mem}
	if c0 > 0 {
		data, err := gproto.Marshal(&snapshotpb.JobCheckpoint{Id: uint64(c0),
			SourceCheckpoints: []*snapshotpb.SourceCheckpoint{{CheckpointId: uint64(c0)}},
			OperatorCheckpoints: []*snapshotpb.OperatorCheckpoint{{CheckpointId: uint64(c0), OperatorId: "old", DkvFileUri: "old",
				KeyGroupRange: &snapshotpb.KeyGroupRange{Start: 0, End: 8}}}})
		if err != nil {
			return nil, err
		}
		seg := make([]byte, 8)
		binary.BigEndian.PutUint64(seg, ^uint64(c0)) // the store's file naming: MaxUint64 - id, big endian, base64url
		if _, err := loc.Write("checkpoints/job-"+base64.RawURLEncoding.EncodeToString(seg)+".snapshot", bytes.NewBuffer(data)); err != nil {
			return nil, err
		}
	}
	world := &c15World{w: w, d: d, bmax: bmax, timers: map[int]*c15Timer{}, handled: map[int][]int{}, queued: map[int][]int{},
		handledCh: make(chan struct{}, 1), retainCh: make(chan struct{}, 64), hung: map[[2]int]bool{}, hangRelease: make(chan struct{}), ops: map[int]*operator.Operator{}, deployed: map[int]bool{},
		deployCh: make(chan *c15DeployCall, 64), startCh: make(chan string, 4),
		clk: &c15Clock{now: time.Unix(1000, 0), everyCh: make(chan struct{}, 4)}}
	quiet := slog.New(slog.NewTextHandler(c15Discard{}, nil))
	slog.SetDefault(quiet) // the store and the operators log through the default logger
	job, err := jobs.New(&jobs.NewParams{
		JobConfig:         &config.Config{WorkerCount: w, KeyGroupCount: 8, WorkingStorageLocation: "memory:///c15", Sources: []connectors.SourceConfig{c15Source{world}}},
		Clock:             world.clk,
		HeartbeatDeadline: time.Duration(d) * time.Second,
		Store:             loc,
		Logger:            quiet,
		OperatorFactory: func(senderID string, node *jobpb.NodeIdentity) proto.Operator {
			return &c15OpHandle{w: world, id: c15Num(node.Id)}
		},
		SourceRunnerFactory: func(node *jobpb.NodeIdentity) proto.SourceRunner {
			return &c15SrHandle{w: world, id: c15Num(node.Id)}
		},
		ErrChan: make(chan error, 16),
	})
	if err != nil {
		return nil, err
	}
	world.job = job
	world.loc = loc
	return world, nil
}

func (w *c15World) op(i int) *operator.Operator {
	if o, ok := w.ops[i]; ok {
		return o
	}
	tm := &c15Timer{}
	w.timers[i] = tm
	o := operator.NewOperator(operator.NewOperatorParams{ID: c15ID(i), Host: "h", Job: c15JobForOp{w: w}, UserHandler: c15Handler{w: w, id: i},
		Clock:         clocks.NewFrozenClock(),
		EventBatching: batching.EventBatcherParams{MaxDelay: time.Hour, MaxSize: w.bmax, Timer: tm},
		NeighborOperatorFactory: func(senderID string, node *jobpb.NodeIdentity) proto.Operator {
			return &c15OpHandle{w: w, id: c15Num(node.Id)}
		}})
	o.Logger = slog.New(slog.NewTextHandler(c15Discard{}, nil))
	go func() {
		defer func() { recover() }()
		o.Start(context.Background())
	}()
	w.ops[i] = o
	return o
}

func c15Join(xs []int) string {
	if len(xs) == 0 {
		return "-"
	}
	ys := append([]int(nil), xs...)
	sort.Ints(ys)
	s := make([]string, len(ys))
	for i, y := range ys {
		s[i] = strconv.Itoa(y)
	}
	return strings.Join(s, ",")
}

func c15Nums(ids []string) []int {
	out := make([]int, len(ids))
	for i, id := range ids {
		out[i] = c15Num(id)
	}
	return out
}

func c15JoinOrdered(ids []string) string {
	if len(ids) == 0 {
		return "-"
	}
	s := make([]string, len(ids))
	for i, id := range ids {
		s[i] = strconv.Itoa(c15Num(id))
	}
	return strings.Join(s, ",")
}

func (w *c15World) sync() bool {
	if w.stuckSeen {
		return true // the queue is stuck for good: nothing runs any more, the state can be read
	}
	bound := c15W()
	if w.parkedCalls.Load() > 0 {
		bound = time.Second
	}
	done := make(chan struct{})
	go func() {
		defer func() { recover() }()
		w.job.VerifSyncC15()
		close(done)
	}()
	select {
	case <-done:
		return true
	case <-time.After(bound):
		return false
	}
}

// collect the Deploy calls of a freshly spawned start goroutine (all members of the job's own assembly)
func (w *c15World) collectBatch() string {
	ao, as := w.job.VerifAssemblyC15()
	want := len(ao) + len(as)
	var calls []*c15DeployCall
	deadline := time.After(c15W())
	for len(calls) < want {
		select {
		case c := <-w.deployCh:
			calls = append(calls, c)
		case <-deadline:
			w.batch = calls
			return "timeout-deploy"
		}
	}
	sort.Slice(calls, func(i, j int) bool {
		if calls[i].kind != calls[j].kind {
			return calls[i].kind < calls[j].kind
		}
		return calls[i].id < calls[j].id
	})
	w.batch = calls
	var os, ss []int
	cks := map[uint64]bool{}
	consistent := true
	wantO, wantS := c15JoinOrdered(ao), c15JoinOrdered(as)
	for _, c := range calls {
		if c.kind == 'o' {
			os = append(os, c.id)
			var ids []string
			for _, n := range c.opReq.Operators {
				ids = append(ids, n.Id)
			}
			if c15JoinOrdered(ids) != wantO || c15JoinOrdered(c.opReq.SourceRunnerIds) != wantS {
				consistent = false
			}
			for _, ck := range c.opReq.Checkpoints {
				cks[ck.CheckpointId] = true
			}
		} else {
			ss = append(ss, c.id)
			var ids []string
			for _, n := range c.srReq.Operators {
				ids = append(ids, n.Id)
			}
			if c15JoinOrdered(ids) != wantO {
				consistent = false
			}
		}
	}
	// the request lists are in assembly order; the model's assembly is in registry (ascending id) order
	if c15Join(os) != wantO || c15Join(ss) != wantS {
		consistent = false
	}
	ck := "none"
	if len(cks) > 0 {
		var l []int
		for k := range cks {
			l = append(l, int(k))
		}
		ck = strings.ReplaceAll(c15Join(l), ",", "+")
	}
	s := fmt.Sprintf("deploy o=%s s=%s ck=%s", c15Join(os), c15Join(ss), ck)
	if !consistent {
		s += fmt.Sprintf(" INCONSISTENT(asm o=%s s=%s)", wantO, wantS)
	}
	return s
}

// status line after a task; picks up the deployment of a newly spawned start goroutine
func (w *c15World) settle() string {
	if !w.sync() {
		return w.stuckWord()
	}
	st := w.job.VerifStatusC15()
	if st == "Starting" && w.batch == nil {
		return st + " " + w.collectBatch()
	}
	return st
}

func (w *c15World) release(victim int) {
	for i, c := range w.batch {
		if i == victim {
			c.resp <- fmt.Errorf("node unreachable")
			continue
		}
		if w.cluster != nil {
			c.resp <- w.cluster.deploy(c)
			continue
		}
		if c.kind == 'o' {
			req := gproto.Clone(c.opReq).(*workerpb.DeployOperatorRequest)
			req.Checkpoints = nil // the operator's DKV restore is not part of this property (C06/C08)
			err := w.op(c.id).HandleDeploy(context.Background(), req, c15Sink{})
			if err == nil {
				w.deployed[c.id] = true
				w.noteSrcs(c.id, req.SourceRunnerIds)
			}
			c.resp <- err
		} else {
			c.resp <- nil
		}
	}
	w.batch = nil
}

// parkIfHung: the member does not answer this RPC (until the case ends)
func (w *c15World) parkIfHung(kind byte, id int) {
	w.mu.Lock()
	h := w.hung[[2]int{int(kind), id}]
	w.mu.Unlock()
	if !h {
		return
	}
	w.parkedCalls.Add(1)
	select {
	case <-w.hangRelease:
	case <-time.After(10 * c15W()):
	}
}

// stuckWord: the queue did not come back. With a call parked at an unresponsive member that is the observation
// QUEUE-STUCK (and the queue is taken as stuck for the rest of the case); otherwise an expired wait.
func (w *c15World) stuckWord() string {
	if w.parkedCalls.Load() > 0 {
		w.stuckSeen = true
		return "QUEUE-STUCK"
	}
	return "timeout-sync"
}

// post hands a membership call to the job; the call blocks while the queue is stuck
func (w *c15World) post(f func()) string {
	if w.stuckSeen {
		return "QUEUE-STUCK"
	}
	done := make(chan struct{})
	go func() {
		defer close(done)
		defer func() { recover() }()
		f()
	}()
	bound := c15W()
	if w.parkedCalls.Load() > 0 {
		bound = time.Second
	}
	select {
	case <-done:
		return w.settle()
	case <-time.After(bound):
		return w.stuckWord()
	}
}

func (w *c15World) noteSrcs(op int, ids []string) {
	if w.opSrcs == nil {
		w.opSrcs = map[int][]int{}
	}
	w.opSrcs[op] = c15Nums(ids)
}

func (w *c15World) staleReport() string {
	var parts []string
	if _, _, _, ok := w.job.VerifStoreC15().VerifPendingC15(); ok {
		parts = append(parts, "pending")
	}
	ao, _ := w.job.VerifAssemblyC15()
	for _, id := range ao {
		if o, ok := w.ops[c15Num(id)]; ok {
			if _, _, has := o.VerifCheckpointRecordC15(); has {
				parts = append(parts, "rec:"+strconv.Itoa(c15Num(id)))
			}
		}
	}
	w.mu.Lock()
	for _, id := range ao {
		if len(w.queued[c15Num(id)]) > 0 {
			parts = append(parts, "batch:"+strconv.Itoa(c15Num(id)))
		}
	}
	w.mu.Unlock()
	if len(parts) == 0 {
		return "none"
	}
	return strings.Join(parts, "+")
}

func (w *c15World) deployOK() string {
	if w.batch == nil {
		return "nostart"
	}
	for len(w.clk.everyCh) > 0 {
		<-w.clk.everyCh
	}
	for len(w.startCh) > 0 {
		<-w.startCh
	}
	w.mu.Lock()
	w.assigned = nil
	w.mu.Unlock()
	w.release(-1)
	var ck string
	select {
	case ck = <-w.startCh:
	case <-time.After(c15W()):
		return "timeout-start"
	}
	// the task that sets Running (and creates the ticker, and evaluates) is enqueued by the start goroutine next
	deadline := time.Now().Add(c15W())
	for {
		if !w.sync() {
			return w.stuckWord()
		}
		if w.job.VerifStatusC15() != "Starting" {
			if !w.sync() { // a status read in the middle of that task is not final
				return w.stuckWord()
			}
			break
		}
		if time.Now().After(deadline) {
			return "timeout-running"
		}
		time.Sleep(100 * time.Microsecond)
	}
	w.mu.Lock()
	as := c15Join(w.assigned)
	w.mu.Unlock()
	return fmt.Sprintf("%s start=%s as=%s stale=%s", w.job.VerifStatusC15(), ck, as, w.staleReport())
}

func (w *c15World) deployFail(k int) string {
	if w.batch == nil {
		return "nostart"
	}
	w.release(k % len(w.batch))
	return w.afterFailedDeploy()
}

// the failure task is enqueued by the start goroutine: wait until it has run
func (w *c15World) afterFailedDeploy() string {
	deadline := time.Now().Add(c15W())
	for time.Now().Before(deadline) {
		if !w.sync() {
			return "timeout-sync"
		}
		st := w.job.VerifStatusC15()
		if st != "Starting" || len(w.deployCh) > 0 {
			return w.settle() // second sync: a status read in the middle of the failure task is not final
		}
		time.Sleep(200 * time.Microsecond)
	}
	return "timeout-fail"
}

func c15ErrClass(err error) string {
	if err == nil {
		return "ok"
	}
	m := err.Error()
	switch {
	case strings.Contains(m, "no pending"):
		return "nopending"
	case strings.Contains(m, "but pending checkpoint is"):
		return "mismatch"
	case strings.Contains(m, "unknown id"):
		return "unknown"
	case strings.Contains(m, "checkpoint ID mismatch"):
		return "mismatch"
	case strings.Contains(m, "not ready"):
		return "notready"
	case strings.Contains(m, "is not a source runner of this deployment"):
		return "refused"
	}
	if len(m) > 60 {
		m = m[:60]
	}
	return "err:" + strings.ReplaceAll(m, " ", "_")
}

// storeCall runs an acknowledgement against the job and reports whether it published a job checkpoint
func (w *c15World) storeCall(f func() error) string {
	st := w.job.VerifStoreC15()
	prev, hadPrev := st.VerifCurrentIDC15()
	pid, _, _, had := st.VerifPendingC15()
	err := func() (err error) {
		defer func() {
			if p := recover(); p != nil { // over RPC the server recovers the handler's panic and the caller sees an error
				err = fmt.Errorf("panic_%v", p)
			}
		}()
		return f()
	}()
	res := c15ErrClass(err)
	if err != nil || !had {
		return res
	}
	if _, _, _, still := st.VerifPendingC15(); still {
		return res
	}
	if w.loc != nil && w.loc.hold.Load() { // completed; its file is not written yet, so it is not current yet
		w.heldIDs = append(w.heldIDs, pid)
		return fmt.Sprintf("%s pub=%d", res, pid)
	}
	deadline := time.Now().Add(c15W())
	for time.Now().Before(deadline) {
		if cur, ok := st.VerifCurrentIDC15(); ok && cur == pid {
			// with real workers two operators acknowledge concurrently and both can see the snapshot complete
			w.mu.Lock()
			if w.pubSeen == nil {
				w.pubSeen = map[uint64]bool{}
			}
			dup := w.pubSeen[pid]
			w.pubSeen[pid] = true
			if !dup && hadPrev && prev < pid { // observed by the op loop, not inside this acknowledgement
				w.pendingRetain = append(w.pendingRetain, pid)
			}
			w.mu.Unlock()
			if dup {
				return res
			}
			return fmt.Sprintf("%s pub=%d", res, pid)
		}
		time.Sleep(100 * time.Microsecond)
	}
	return res + " timeout-publish"
}

type c15Retain struct {
	op  int
	ids []uint64
}

// awaitRetain: the publication of `id` made an older snapshot obsolete; the job tells every operator of its assembly
// to retain only `id`
func (w *c15World) awaitRetain(id uint64) {
	w.mu.Lock()
	seen := len(w.retained)
	w.mu.Unlock()
	if w.retainBlocked.Load() && seen == 0 {
		return // the job's retained-ids goroutine is waiting for an operator that does not answer: nothing more is sent
	}
	ao, _ := w.job.VerifAssemblyC15()
	deadline := time.After(c15W())
	for {
		w.mu.Lock()
		n := len(w.retained)
		w.mu.Unlock()
		if n >= len(ao) {
			break
		}
		select {
		case <-w.retainCh:
		case <-deadline:
			w.retainText += " timeout-retain"
			return
		}
	}
	w.mu.Lock()
	got := w.retained
	w.retained = nil
	w.mu.Unlock()
	var ops []int
	okIDs := true
	for _, r := range got {
		ops = append(ops, r.op)
		if len(r.ids) != 1 || r.ids[0] != id {
			okIDs = false
		}
	}
	w.retainText += fmt.Sprintf(" retain=%d@%s", id, c15Join(ops))
	if !okIDs {
		w.retainText += "!ids"
	}
}

type c15Gate struct {
	arrived chan struct{}
	release chan struct{}
}

type c15TickCb struct {
	id    *c15Gate
	start *c15Gate
	done  chan struct{}
	stage int
	sp    bool // a savepoint request, not the ticker callback
	spID  uint64
	spErr error
}

// releasePublications lets the held snapshot files be written, oldest first, and waits for each publication
func (w *c15World) releasePublications() string {
	ids := w.heldIDs
	w.heldIDs = nil
	if len(ids) == 0 {
		w.loc.hold.Store(false)
		return "nothing"
	}
	defer w.loc.hold.Store(false) // only after every held write has been seen parked
	st := w.job.VerifStoreC15()
	var names []string
	for _, id := range ids {
		prev, hadPrev := st.VerifCurrentIDC15()
		// the write of this snapshot is parked by now or about to be (it is issued by a goroutine of the store)
		name := c15SnapshotName(id)
		deadline := time.Now().Add(c15W())
		for {
			w.loc.pmu.Lock()
			ch := w.loc.parked[name]
			if ch != nil {
				delete(w.loc.parked, name)
				close(ch)
			}
			w.loc.pmu.Unlock()
			if ch != nil {
				break
			}
			if time.Now().After(deadline) {
				return "timeout-write"
			}
			time.Sleep(50 * time.Microsecond)
		}
		deadline = time.Now().Add(c15W())
		for {
			if cur, ok := st.VerifCurrentIDC15(); ok && cur >= id {
				break
			}
			if time.Now().After(deadline) {
				return "timeout-publish"
			}
			time.Sleep(50 * time.Microsecond)
		}
		if hadPrev && prev < id {
			w.awaitRetain(id)
		}
		names = append(names, strconv.FormatUint(id, 10))
	}
	cur := "none"
	if c, ok := st.VerifCurrentIDC15(); ok {
		cur = strconv.FormatUint(c, 10)
	}
	return fmt.Sprintf("published %s cur=%s", strings.Join(names, ","), cur)
}

func c15SpClass(id uint64, err error, started bool) string {
	switch {
	case err != nil && strings.Contains(err.Error(), "not running"):
		return "notrunning"
	case err != nil && strings.Contains(err.Error(), "already in-progress"):
		return "busy"
	case err != nil:
		return c15ErrClass(err)
	case started:
		return "created"
	}
	return fmt.Sprintf("joined %d", id)
}

// savepoint: HandleCreateSavepoint as one step
func (w *c15World) savepoint() string {
	if !w.sync() {
		return "timeout-sync"
	}
	w.mu.Lock()
	w.ckStarts = nil
	w.mu.Unlock()
	id, err := w.job.HandleCreateSavepoint(context.Background())
	w.mu.Lock()
	cs := w.ckStarts
	w.mu.Unlock()
	if err == nil && len(cs) > 0 {
		var srs []int
		for _, c := range cs {
			srs = append(srs, int(c[0]))
		}
		return fmt.Sprintf("ckpt %d s=%s", id, c15Join(srs))
	}
	return c15SpClass(id, err, false)
}

// tickA starts the ticker callback (or, sp, a savepoint request) and holds it inside its first read of the assembly
func (w *c15World) tickA(sp bool) string {
	if !w.sync() {
		return "timeout-sync"
	}
	var run func()
	cb := &c15TickCb{id: &c15Gate{arrived: make(chan struct{}, 1), release: make(chan struct{})}, done: make(chan struct{}), sp: sp}
	if sp {
		if w.job.VerifStatusC15() != "Running" {
			_, err := w.job.HandleCreateSavepoint(context.Background())
			return c15SpClass(0, err, false)
		}
		if w.tickCb != nil {
			return "notick"
		}
		run = func() { cb.spID, cb.spErr = w.job.HandleCreateSavepoint(context.Background()) }
	} else {
		alive := w.clk.alive()
		if len(alive) == 0 {
			return "stopped"
		}
		if w.tickCb != nil {
			return "notick"
		}
		t := alive[len(alive)-1]
		run = func() { t.fn(&clocks.EveryContext{}) }
	}
	w.idGate.Store(cb.id)
	go func() {
		defer close(cb.done)
		defer func() { recover() }()
		run()
	}()
	select {
	case <-cb.id.arrived:
	case <-cb.done:
		w.idGate.Store(nil)
		return "timeout-tick-returned"
	case <-time.After(c15W()):
		w.idGate.Store(nil)
		return "timeout-ticka"
	}
	w.tickCb = cb
	ao, _ := w.job.VerifAssemblyC15()
	return "read o=" + c15Join(c15Nums(ao))
}

func (w *c15World) tickB() string {
	cb := w.tickCb
	if cb == nil || cb.stage != 0 {
		return "notick"
	}
	_, as := w.job.VerifAssemblyC15() // what the callback is about to read for StartCheckpoint (the job is quiescent)
	cb.start = &c15Gate{arrived: make(chan struct{}, 64), release: make(chan struct{})}
	w.startGate.Store(cb.start)
	w.mu.Lock()
	w.ckStarts = nil
	w.mu.Unlock()
	close(cb.id.release)
	n := 0
	deadline := time.After(c15W())
	for n < len(as) {
		select {
		case <-cb.start.arrived:
			n++
		case <-cb.done: // CreateCheckpoint answered "in progress": the callback asked for a retry and returned
			w.startGate.Store(nil)
			w.tickCb = nil
			w.mu.Lock()
			k := len(w.ckStarts)
			w.mu.Unlock()
			if k == 0 {
				if cb.sp {
					return c15SpClass(cb.spID, cb.spErr, false)
				}
				return "retry"
			}
			return "timeout-tick-returned"
		case <-deadline:
			return "timeout-tickb"
		}
	}
	cb.stage = 1
	w.mu.Lock()
	id := w.ckStarts[0][1]
	w.mu.Unlock()
	return fmt.Sprintf("created %d", id)
}

func (w *c15World) tickC() string {
	cb := w.tickCb
	if cb == nil || cb.stage != 1 {
		return "notick"
	}
	close(cb.start.release)
	w.startGate.Store(nil)
	w.tickCb = nil
	select {
	case <-cb.done:
	case <-time.After(c15W()):
		return "timeout-tickc"
	}
	w.mu.Lock()
	cs := w.ckStarts
	w.mu.Unlock()
	var srs []int
	for _, c := range cs {
		srs = append(srs, int(c[0]))
	}
	return fmt.Sprintf("ckpt %d s=%s", cs[0][1], c15Join(srs))
}

// raceProbe lets ticker callbacks run truly concurrently with membership tasks (for a run of the harness built with
// -race: the callback reads j.assembly while the queue goroutine replaces it). The state afterwards is arbitrary.
func (w *c15World) raceProbe(n int) string {
	_, as := w.job.VerifAssemblyC15()
	if len(as) == 0 || w.job.VerifStatusC15() != "Running" {
		return "ok"
	}
	w.autoDeploy.Store(true)
	stop := make(chan struct{})
	var wg sync.WaitGroup
	wg.Add(1)
	go func() {
		defer wg.Done()
		defer func() { recover() }()
		for {
			select {
			case <-stop:
				return
			default:
			}
			if alive := w.clk.alive(); len(alive) > 0 {
				alive[len(alive)-1].fn(&clocks.EveryContext{})
			}
			time.Sleep(20 * time.Microsecond)
		}
	}()
	node := &jobpb.NodeIdentity{Id: as[0], Host: "h"}
	for i := 0; i < n; i++ {
		w.job.HandleDeregisterSourceRunner(node)
		w.job.HandleRegisterSourceRunner(node)
		w.sync()
		time.Sleep(50 * time.Microsecond)
	}
	close(stop)
	wg.Wait()
	return "ok"
}

func (w *c15World) tick() string {
	alive := w.clk.alive()
	if len(alive) == 0 {
		return "stopped"
	}
	var outs []string
	for _, t := range alive {
		w.mu.Lock()
		w.ckStarts = nil
		w.mu.Unlock()
		t.fn(&clocks.EveryContext{})
		w.mu.Lock()
		cs := w.ckStarts
		w.mu.Unlock()
		if len(cs) == 0 {
			outs = append(outs, "retry")
			continue
		}
		if w.cluster != nil && !w.cluster.awaitAcks(cs) {
			outs = append(outs, "timeout-ack")
			continue
		}
		ids := map[uint64]bool{}
		var srs []int
		for _, c := range cs {
			ids[c[1]] = true
			srs = append(srs, int(c[0]))
		}
		var idl []int
		for k := range ids {
			idl = append(idl, int(k))
		}
		outs = append(outs, fmt.Sprintf("ckpt %s s=%s", strings.ReplaceAll(c15Join(idl), ",", "+"), c15Join(srs)))
	}
	return strings.Join(outs, " | ")
}

// parkedSender: would alignSender park this sender (its barrier is in, or the record does not expect it)?
func (w *c15World) parkedSender(o *operator.Operator, i, s int) bool {
	member := false
	for _, x := range w.opSrcs[i] {
		if x == s {
			member = true
		}
	}
	if !member {
		return false // HandleEvent refuses a sender that is not a runner of the deployment before it could park
	}
	if _, waiting, ok := o.VerifCheckpointRecordC15(); ok && len(waiting) > 0 {
		for _, x := range waiting {
			if x == c15ID(s) {
				return false
			}
		}
		return true
	}
	return false
}

func (w *c15World) takeHandled(i int) string {
	w.mu.Lock()
	defer w.mu.Unlock()
	h := w.handled[i]
	w.handled[i] = nil
	if len(h) == 0 {
		return ""
	}
	parts := make([]string, len(h))
	for j, t := range h {
		parts[j] = strconv.Itoa(t)
	}
	return strings.Join(parts, ",")
}

// handleEvent delivers one event through the operator's public entry point and waits (bounded) for the answer
func (w *c15World) handleEvent(o *operator.Operator, s int, ev *workerpb.Event) (error, bool) {
	ch := make(chan error, 1)
	go func() {
		defer func() {
			if p := recover(); p != nil {
				ch <- fmt.Errorf("panic %v", p)
			}
		}()
		ch <- o.HandleEvent(context.Background(), c15ID(s), ev)
	}()
	select {
	case err := <-ch:
		return err, true
	case <-time.After(c15W()):
		return nil, false
	}
}

func (w *c15World) barrier(i, s int, id uint64) string {
	o := w.op(i)
	if w.deployed[i] && w.parkedSender(o, i, s) {
		return "blocked" // the sender would park in alignSender until the record completes or is abandoned
	}
	w.opAcked = false
	w.takeHandled(i)
	err, ok := w.handleEvent(o, s, &workerpb.Event{Event: &workerpb.Event_CheckpointBarrier{CheckpointBarrier: &workerpb.CheckpointBarrier{CheckpointId: id}}})
	if !ok {
		return "timeout-barrier"
	}
	flushed := ""
	if h := w.takeHandled(i); h != "" {
		flushed = " flushed=" + h
	}
	if w.opAcked {
		if err == nil {
			if rest := strings.TrimSpace(strings.TrimPrefix(w.lastOpAck, "ok")); rest != "" {
				return "ok acked " + rest + flushed
			}
			return "ok acked" + flushed
		}
		return "ackerr " + w.lastOpAck + flushed
	}
	return c15ErrClass(err) + flushed
}

func (w *c15World) event(i, s, tag int) string {
	o := w.op(i)
	if w.deployed[i] && w.parkedSender(o, i, s) {
		return "blocked"
	}
	w.takeHandled(i)
	err, ok := w.handleEvent(o, s, &workerpb.Event{Event: &workerpb.Event_KeyedEvent{KeyedEvent: &handlerpb.KeyedEvent{
		Key: []byte("k"), Value: []byte(strconv.Itoa(tag))}}})
	if !ok {
		return "timeout-event"
	}
	if err != nil {
		return c15ErrClass(err)
	}
	if h := w.takeHandled(i); h != "" {
		return "processed " + h
	}
	w.mu.Lock()
	w.queued[i] = append(w.queued[i], tag)
	w.mu.Unlock()
	return "queued"
}

// flush fires the operator's batch timer (if a batch is waiting) and waits for the handler to be called
func (w *c15World) flush(i int) string {
	tm := w.timers[i]
	if tm == nil {
		return "empty"
	}
	do := tm.take()
	if do == nil {
		return "empty"
	}
	w.takeHandled(i)
	for len(w.handledCh) > 0 {
		<-w.handledCh
	}
	fired := make(chan struct{})
	go func() {
		defer func() { recover() }()
		do()
		close(fired)
	}()
	select {
	case <-fired:
	case <-time.After(c15W()):
		return "timeout-flush"
	}
	deadline := time.After(c15W())
	for {
		if h := w.takeHandled(i); h != "" {
			return "processed " + h
		}
		select {
		case <-w.handledCh:
		case <-deadline:
			return "timeout-flush"
		}
	}
}

func (w *c15World) state() string {
	ro, rs := w.job.VerifRegistryC15()
	ao, as := w.job.VerifAssemblyC15()
	st := w.job.VerifStoreC15()
	pend := "none"
	if id, wo, ws, ok := st.VerifPendingC15(); ok {
		pend = fmt.Sprintf("%d:o%s:s%s", id, c15Join(c15Nums(wo)), c15Join(c15Nums(ws)))
	}
	cur := "none"
	if c, ok := st.VerifCurrentIDC15(); ok {
		cur = strconv.FormatUint(c, 10)
	}
	var recs []string
	var ids []int
	for i := range w.ops {
		ids = append(ids, i)
	}
	sort.Ints(ids)
	for _, i := range ids {
		if id, waiting, ok := w.ops[i].VerifCheckpointRecordC15(); ok {
			recs = append(recs, fmt.Sprintf("%d:%d/%s", i, id, c15Join(c15Nums(waiting))))
		}
	}
	rec := "-"
	if len(recs) > 0 {
		rec = strings.Join(recs, ";")
	}
	tick := 0
	if len(w.clk.alive()) > 0 {
		tick = len(w.clk.alive())
	}
	var bats []string
	w.mu.Lock()
	for i := 0; i < 10; i++ {
		if q := w.queued[i]; len(q) > 0 {
			parts := make([]string, len(q))
			for j, t := range q {
				parts[j] = strconv.Itoa(t)
			}
			bats = append(bats, fmt.Sprintf("%d:%s", i, strings.Join(parts, ",")))
		}
	}
	w.mu.Unlock()
	bat := "-"
	if len(bats) > 0 {
		bat = strings.Join(bats, ";")
	}
	wr := "-"
	if len(w.heldIDs) > 0 {
		parts := make([]string, len(w.heldIDs))
		for i, id := range w.heldIDs {
			parts[i] = strconv.FormatUint(id, 10)
		}
		wr = strings.Join(parts, ",")
	}
	return fmt.Sprintf("%s reg=o%s:s%s asm=o%s:s%s pend=%s cur=%s wr=%s tick=%d rec=%s bat=%s", w.job.VerifStatusC15(),
		c15Join(c15Nums(ro)), c15Join(c15Nums(rs)), c15Join(c15Nums(ao)), c15Join(c15Nums(as)), pend, cur, wr, tick, rec, bat)
}

var (
	c15StatsMu sync.Mutex
	c15Stats   = map[string]int{}
)

// output distribution for the evidence file
func c15Count(op []string, o string) {
	if len(op) == 0 {
		return
	}
	key := op[0] + ":" + strings.Fields(o + " -")[0]
	switch {
	case strings.Contains(o, " deploy "):
		key = op[0] + ":deploy"
	case strings.Contains(o, "pub="):
		key = op[0] + ":published"
	case strings.HasPrefix(o, "ok acked"):
		key = op[0] + ":acked"
	case strings.HasPrefix(o, "ackerr"):
		key = op[0] + ":ackerr"
	case op[0] == "st":
		key = "st"
	}
	c15StatsMu.Lock()
	c15Stats[key]++
	c15StatsMu.Unlock()
}

const c15BatchMax = 3

func c15Header(w, d, c0 int) string { return fmt.Sprintf("M C15 %d %d %d %d", w, d, c0, c15BatchMax) }

func c15Impl(c lib.Case) []string {
	f := strings.Fields(c.Header)
	if len(f) == 7 && f[6] == "S" {
		return c15SrImpl(c)
	}
	atoi := func(s string) int { n, _ := strconv.Atoi(s); return n }
	if len(f) != 6 && len(f) != 7 {
		return []string{"bad-header"}
	}
	w, err := newC15World(atoi(f[2]), atoi(f[3]), atoi(f[4]), atoi(f[5]))
	if err != nil {
		return []string{"setup-error " + err.Error()}
	}
	out := make([]string, 0, len(c.Ops))
	ctx := context.Background()
	if len(f) == 7 && f[6] == "R" {
		w.cluster = newC15Cluster(w)
		defer w.cluster.close()
	}
	for _, line := range c.Ops {
		a := strings.Fields(line)
		var o string
		clusterDone := false
		if w.cluster != nil {
			if r, ok := w.cluster.clusterOp(a); ok {
				o, clusterDone = r, true
			}
		}
		switch {
		case clusterDone:
		case len(a) == 3 && a[0] == "reg" && a[1] == "o":
			w.op(atoi(a[2]))
			o = w.post(func() { w.job.HandleRegisterOperator(&jobpb.NodeIdentity{Id: c15ID(atoi(a[2])), Host: "h"}) })
		case len(a) == 3 && a[0] == "reg" && a[1] == "s":
			o = w.post(func() { w.job.HandleRegisterSourceRunner(&jobpb.NodeIdentity{Id: c15ID(atoi(a[2])), Host: "h"}) })
		case len(a) == 3 && a[0] == "dereg" && a[1] == "o":
			o = w.post(func() { w.job.HandleDeregisterOperator(&jobpb.NodeIdentity{Id: c15ID(atoi(a[2])), Host: "h"}) })
		case len(a) == 3 && a[0] == "dereg" && a[1] == "s":
			o = w.post(func() { w.job.HandleDeregisterSourceRunner(&jobpb.NodeIdentity{Id: c15ID(atoi(a[2])), Host: "h"}) })
		case len(a) == 2 && a[0] == "adv":
			w.clk.mu.Lock()
			w.clk.now = w.clk.now.Add(time.Duration(atoi(a[1])) * time.Second)
			w.clk.mu.Unlock()
			o = "ok"
		case len(a) == 1 && a[0] == "deployok":
			o = w.deployOK()
		case len(a) == 2 && a[0] == "deployfail":
			o = w.deployFail(atoi(a[1]))
		case len(a) == 3 && a[0] == "hang" && (a[1] == "o" || a[1] == "s"):
			w.mu.Lock()
			w.hung[[2]int{int(a[1][0]), atoi(a[2])}] = true
			w.mu.Unlock()
			o = "ok"
		case len(a) == 1 && a[0] == "holdpub":
			w.loc.hold.Store(true)
			o = "ok"
		case len(a) == 1 && a[0] == "relpub":
			o = w.releasePublications()
		case len(a) == 1 && a[0] == "savepoint":
			o = w.savepoint()
		case len(a) == 1 && a[0] == "spa":
			o = w.tickA(true)
		case len(a) == 1 && a[0] == "ticka":
			o = w.tickA(false)
		case len(a) == 1 && a[0] == "tickb":
			o = w.tickB()
		case len(a) == 1 && a[0] == "tickc":
			o = w.tickC()
		case len(a) == 2 && a[0] == "raceprobe":
			o = w.raceProbe(atoi(a[1]))
		case len(a) == 1 && a[0] == "tick":
			o = w.tick()
		case len(a) == 4 && a[0] == "ack" && a[1] == "s":
			o = w.storeCall(func() error {
				return w.job.HandleSourceRunnerCheckpointComplete(ctx, &jobpb.SourceRunnerCheckpointCompleteRequest{
					CheckpointId: uint64(atoi(a[3])), SourceRunnerId: c15ID(atoi(a[2])), SplitStates: [][]byte{[]byte("s" + a[2])}})
			})
		case len(a) == 4 && a[0] == "ack" && a[1] == "o":
			o = w.storeCall(func() error {
				return w.job.HandleOperatorCheckpointComplete(ctx, &snapshotpb.OperatorCheckpoint{
					CheckpointId: uint64(atoi(a[3])), OperatorId: c15ID(atoi(a[2])), DkvFileUri: "direct",
					KeyGroupRange: &snapshotpb.KeyGroupRange{Start: 0, End: 8}})
			})
		case len(a) == 4 && a[0] == "bar":
			o = w.barrier(atoi(a[1]), atoi(a[2]), uint64(atoi(a[3])))
		case len(a) == 4 && a[0] == "ev":
			o = w.event(atoi(a[1]), atoi(a[2]), atoi(a[3]))
		case len(a) == 2 && a[0] == "flush":
			o = w.flush(atoi(a[1]))
		case len(a) == 3 && a[0] == "hbx":
			// instance of Props/C15 heartbeat_expiry_exact on the real LivenessTracker: purged ⇔ age > deadline
			d, age := atoi(a[1]), atoi(a[2])
			clk := clocks.NewFrozenClock()
			lt := jobs.NewLivenessTracker(clk, time.Duration(d)*time.Second)
			lt.Heartbeat("x")
			clk.Advance(time.Duration(age) * time.Second)
			purged := len(lt.Purge()) == 1
			if purged == (age > d) {
				o = "ok"
			} else {
				o = fmt.Sprintf("purged=%v age=%d deadline=%d", purged, age, d)
			}
		case len(a) == 3 && a[0] == "hbxn":
			// the same instance at nanosecond resolution around the deadline: age = deadline + delta ns
			d, delta := atoi(a[1]), atoi(a[2])
			clk := clocks.NewFrozenClock()
			lt := jobs.NewLivenessTracker(clk, time.Duration(d)*time.Second)
			lt.Heartbeat("x")
			clk.Advance(time.Duration(d)*time.Second + time.Duration(delta))
			purged := len(lt.Purge()) == 1
			if purged == (delta > 0) {
				o = "ok"
			} else {
				o = fmt.Sprintf("purged=%v age=deadline%+dns deadline=%ds", purged, delta, d)
			}
		case len(a) == 1 && a[0] == "st":
			if !w.sync() {
				o = w.stuckWord()
			} else if w.stuckSeen {
				o = "QUEUE-STUCK"
			} else {
				o = w.state()
			}
		default:
			o = "bad-op"
		}
		w.mu.Lock()
		pr := w.pendingRetain
		w.pendingRetain = nil
		w.mu.Unlock()
		for _, id := range pr {
			w.awaitRetain(id)
		}
		o += w.retainText
		w.retainText = ""
		out = append(out, o)
		c15Count(a, o)
		if strings.Contains(o, "timeout-") { // the run has left the model; what follows would only wait again
			c15Timeouts.Add(1)
			for len(out) < len(c.Ops) {
				out = append(out, "skipped-after-timeout")
			}
			break
		}
	}
	close(w.hangRelease)
	w.loc.hold.Store(false)
	w.loc.pmu.Lock()
	for _, ch := range w.loc.parked {
		func() {
			defer func() { recover() }()
			close(ch)
		}()
	}
	w.loc.pmu.Unlock()
	// let a ticker callback and a start goroutine that are still parked at a gate finish
	w.idGate.Store(nil)
	w.startGate.Store(nil)
	if cb := w.tickCb; cb != nil {
		func() {
			defer func() { recover() }() // already released
			close(cb.id.release)
		}()
		if cb.start != nil {
			func() {
				defer func() { recover() }()
				close(cb.start.release)
			}()
		}
	}
	for _, c := range w.batch {
		c.resp <- fmt.Errorf("case over")
	}
	return out
}

var _ io.Writer = c15Discard{}

// ---------------------------------------------------------------- generator

// The generator keeps a rough mirror of the job (status, registry, heartbeats, assembly, checkpoint counter) so that
// it mostly proposes actions that are enabled; the mirror is a sampling heuristic only and is never an oracle.
type c15Gen struct {
	r       *lib.Rng
	w, d    int
	ops     []string
	now     int
	regO    []int
	regS    []int
	hb      map[int]int
	status  string // Init, Paused, Starting, Running
	asmO    []int
	asmS    []int
	ck      int
	pending bool
	acked   map[string]bool
	deploys int
	tag     int
	held    bool
	hung    bool
	stale   []string // unsent messages of the checkpoint that was in flight when the last fault struck
}

// keyed events from the runners of the assembly to its operators (unique tags), sometimes a batch timer
func (g *c15Gen) traffic() {
	if len(g.asmO) == 0 || len(g.asmS) == 0 {
		return
	}
	for n := g.r.Range(1, 4); n > 0; n-- {
		if g.r.Chance(1, 5) {
			g.add("flush %d", lib.Pick(g.r, g.asmO))
			continue
		}
		g.tag++
		g.add("ev %d %d %d", lib.Pick(g.r, g.asmO), lib.Pick(g.r, g.asmS), g.tag)
	}
}

func (g *c15Gen) add(s string, a ...any) { g.ops = append(g.ops, fmt.Sprintf(s, a...)) }

func c15Remove(xs []int, x int) []int {
	var out []int
	for _, y := range xs {
		if y != x {
			out = append(out, y)
		}
	}
	return out
}

func c15Add(xs []int, x int) []int {
	for _, y := range xs {
		if y == x {
			return xs
		}
	}
	xs = append(append([]int(nil), xs...), x)
	sort.Ints(xs)
	return xs
}

func c15Has(xs []int, x int) bool {
	for _, y := range xs {
		if y == x {
			return true
		}
	}
	return false
}

func (g *c15Gen) node() int { return g.r.Intn(7) }

func (g *c15Gen) evaluate() {
	for id, t := range g.hb {
		if t+g.d < g.now {
			delete(g.hb, id)
			g.regO = c15Remove(g.regO, id)
			g.regS = c15Remove(g.regS, id)
		}
	}
	switch g.status {
	case "Running":
		ok := true
		for _, i := range g.asmO {
			ok = ok && c15Has(g.regO, i)
		}
		for _, i := range g.asmS {
			ok = ok && c15Has(g.regS, i)
		}
		if !ok {
			g.status = "Paused"
		}
	case "Init", "Paused":
		if len(g.regO) >= g.w && len(g.regS) >= g.w {
			g.asmO = append([]int(nil), g.regO[:g.w]...)
			g.asmS = append([]int(nil), g.regS[:g.w]...)
			g.status = "Starting"
			g.pending = false
		}
	}
}

func (g *c15Gen) reg(kind string, i int) {
	g.hb[i] = g.now
	if kind == "o" {
		g.regO = c15Add(g.regO, i)
	} else {
		g.regS = c15Add(g.regS, i)
	}
	g.add("reg %s %d", kind, i)
	g.evaluate()
}

func (g *c15Gen) dereg(kind string, i int) {
	if kind == "o" {
		g.regO = c15Remove(g.regO, i)
	} else {
		g.regS = c15Remove(g.regS, i)
	}
	g.add("dereg %s %d", kind, i)
	g.evaluate()
}

func (g *c15Gen) deployOK() {
	g.add("deployok")
	if g.status == "Starting" {
		g.status = "Running"
		g.deploys++
		g.evaluate()
		// a message of the abandoned checkpoint arrives after the deployment (a runner loop of the previous
		// deployment still running, a late delivery): D56
		if len(g.stale) > 0 && g.r.Chance(1, 3) {
			g.add("%s", g.stale[0])
			g.stale = g.stale[1:]
		}
	}
}

func (g *c15Gen) deployFail() {
	g.add("deployfail %d", g.r.Intn(6))
	if g.status == "Starting" {
		g.status = "Paused"
		g.evaluate()
	}
}

func (g *c15Gen) tick() {
	g.add("tick")
	if g.status == "Running" && !g.pending {
		g.ck++
		g.pending = true
		g.acked = map[string]bool{}
	}
}

// the messages of one checkpoint round on the current assembly that have not been sent yet
func (g *c15Gen) roundSteps() []string {
	var steps []string
	for _, x := range g.asmS {
		steps = append(steps, fmt.Sprintf("ack s %d %d", x, g.ck))
	}
	for _, i := range g.asmO {
		for _, x := range g.asmS {
			steps = append(steps, fmt.Sprintf("bar %d %d %d", i, x, g.ck))
		}
	}
	var out []string
	for _, st := range steps {
		if !g.acked[st] {
			out = append(out, st)
		}
	}
	return out
}

func (g *c15Gen) sendRound(full bool) {
	steps := g.roundSteps()
	if len(steps) == 0 {
		return
	}
	if g.r.Chance(1, 2) {
		for i := len(steps) - 1; i > 0; i-- {
			j := g.r.Intn(i + 1)
			steps[i], steps[j] = steps[j], steps[i]
		}
	}
	n := len(steps)
	if !full {
		n = g.r.Intn(len(steps) + 1)
	}
	for _, st := range steps[:n] {
		g.add("%s", st)
		g.acked[st] = true
	}
	if n == len(steps) {
		g.pending = false // published (if the mirror is right)
	}
}

// a member of the running assembly is lost: deregistration, or silence past the heartbeat deadline
func (g *c15Gen) fault() {
	if len(g.asmO) == 0 {
		return
	}
	if g.pending {
		g.stale = g.roundSteps()
	}
	kind := lib.Pick(g.r, []string{"o", "s"})
	victim := lib.Pick(g.r, g.asmO)
	if kind == "s" {
		victim = lib.Pick(g.r, g.asmS)
	}
	if g.r.Chance(1, 2) {
		g.dereg(kind, victim)
		return
	}
	// everybody else heartbeats just before the victim's deadline passes; the last heartbeat evaluates after it
	g.now += g.d + 1
	g.add("adv %d", g.d+1)
	for _, i := range append([]int(nil), g.regO...) {
		if !(kind == "o" && i == victim) && g.r.Chance(5, 6) {
			g.reg("o", i)
		}
	}
	for _, i := range append([]int(nil), g.regS...) {
		if !(kind == "s" && i == victim) && g.r.Chance(5, 6) {
			g.reg("s", i)
		}
	}
}

func (g *c15Gen) noise() {
	switch g.r.Intn(9) {
	case 7, 8:
		// a duplicate of a message of the current round (a repeated barrier parks its sender)
		var sent []string
		for st := range g.acked {
			sent = append(sent, st)
		}
		sort.Strings(sent)
		if len(sent) > 0 {
			g.add("%s", lib.Pick(g.r, sent))
		}
	case 0:
		g.add("ack s %d %d", g.node(), g.r.Range(0, g.ck+1))
	case 1:
		g.add("ack o %d %d", g.node(), g.r.Range(0, g.ck+1))
	case 2:
		g.add("bar %d %d %d", g.node(), g.node(), g.r.Range(0, g.ck+1))
	case 3:
		n := g.r.Range(1, 3)
		g.now += n
		g.add("adv %d", n)
	case 4:
		if g.r.Bool() {
			g.reg("o", g.node())
		} else {
			g.reg("s", g.node())
		}
	case 5:
		if g.r.Bool() && len(g.regO) > 0 {
			g.dereg("o", lib.Pick(g.r, g.regO))
		} else if len(g.regS) > 0 {
			g.dereg("s", lib.Pick(g.r, g.regS))
		}
	case 6:
		g.add("st")
	}
	if g.r.Chance(1, 6) { // events from anybody to anybody, a timer anywhere
		if g.r.Chance(1, 4) {
			g.add("flush %d", g.node())
		} else {
			g.tag++
			g.add("ev %d %d %d", g.node(), g.node(), g.tag)
		}
	}
}

func c15Gen1(r *lib.Rng, tier string, idx int) lib.Case {
	if idx%10 == 7 { // one real source runner process against Model/RunnerProc.lean
		return c15GenRunner(r)
	}
	if idx%5 == 4 { // every fifth case runs real worker processes
		return c15GenCluster(r, tier)
	}
	w := lib.Pick(r, []int{1, 2, 2, 2, 3})
	d := lib.Pick(r, []int{5, 5, 3, 10})
	c0 := lib.Pick(r, []int{0, 0, 0, 4})
	g := &c15Gen{r: r, w: w, d: d, ck: c0, now: 1000, hb: map[int]int{}, status: "Init", acked: map[string]bool{}}
	maxOps := 50
	if tier == "thorough" {
		maxOps = 110
	}
	budget := r.Range(15, maxOps)
	for len(g.ops) < budget {
		if r.Chance(1, 6) {
			g.noise()
			continue
		}
		switch g.status {
		case "Init", "Paused":
			// bring (replacement) nodes in; sometimes a standby more than needed
			if len(g.regO) < g.w || (len(g.regS) >= g.w && r.Chance(1, 2)) {
				i := g.node()
				for tries := 0; c15Has(g.regO, i) && tries < 8; tries++ {
					i = g.node()
				}
				g.reg("o", i)
			} else {
				i := g.node()
				for tries := 0; c15Has(g.regS, i) && tries < 8; tries++ {
					i = g.node()
				}
				g.reg("s", i)
			}
		case "Starting":
			if len(g.stale) > 0 && r.Chance(1, 2) { // late messages of the abandoned checkpoint
				for n := r.Range(1, len(g.stale)); n > 0; n-- {
					g.add("%s", g.stale[0])
					g.stale = g.stale[1:]
				}
			}
			switch {
			case r.Chance(3, 4):
				g.deployOK()
			case r.Chance(1, 2):
				g.deployFail()
			case r.Chance(1, 2):
				g.fault() // a member is lost while the deployment is in flight
			default:
				g.noise()
			}
		case "Running":
			if !g.hung && r.Chance(1, 30) && len(g.asmO) > 0 {
				// a member stops answering RPCs (it may keep heartbeating or not: what follows decides)
				g.hung = true
				if r.Chance(2, 3) {
					g.add("hang o %d", lib.Pick(r, g.asmO))
				} else {
					g.add("hang s %d", lib.Pick(r, g.asmS))
				}
				continue
			}
			if r.Chance(1, 25) {
				g.add("savepoint")
				if !g.pending {
					g.ck++
					g.pending = true
					g.acked = map[string]bool{}
				}
				continue
			}
			if r.Chance(1, 12) && !g.pending { // the ticker callback (or a savepoint request) in pieces, with tasks in between
				g.add(lib.Pick(r, []string{"ticka", "ticka", "spa"}))
				if r.Chance(1, 2) {
					g.fault()
					if r.Chance(1, 2) && g.status != "Running" {
						g.reg(lib.Pick(r, []string{"o", "s"}), g.node())
					}
				}
				g.add("tickb")
				if r.Chance(1, 3) {
					g.noise()
				}
				g.add("tickc")
				if g.status == "Running" {
					g.ck++
					g.pending = true
					g.acked = map[string]bool{}
				} else {
					g.ck++ // the callback may still have created a checkpoint (D57)
				}
				continue
			}
			if r.Chance(1, 14) && !g.pending && !g.held {
				// a snapshot completes but its file is still being written when a member is lost; it is published
				// while the new deployment is in flight (or after it)
				g.add("holdpub")
				g.held = true
				g.tick()
				g.sendRound(true)
				g.fault()
				for tries := 0; g.status != "Starting" && tries < 6; tries++ {
					g.reg(lib.Pick(r, []string{"o", "s"}), g.node())
				}
				if r.Chance(2, 3) {
					g.add("relpub")
					g.held = false
				}
				continue
			}
			switch r.Intn(10) {
			case 8, 9:
				g.traffic()
			case 0, 1:
				g.tick()
			case 2, 3, 4:
				if !g.pending {
					g.tick()
				}
				g.sendRound(r.Chance(2, 3))
			case 5, 6:
				if g.pending && r.Chance(1, 2) {
					g.sendRound(false) // the failure strikes while a checkpoint is in flight
				}
				if r.Chance(1, 3) {
					g.traffic() // ... and while events are queued at the operators
				}
				g.fault()
			case 7:
				if r.Bool() { // standby registers
					g.reg("o", g.node())
				} else {
					g.reg("s", g.node())
				}
			}
		}
	}
	if g.held {
		g.add("relpub")
	}
	g.add("hbx %d %d", d, r.Range(0, 2*d+1))
	g.add("hbx %d %d", d, d+r.Range(-1, 1))              // at, one second before, one second after the deadline
	g.add("hbxn %d %d", d, lib.Pick(r, []int{-1, 0, 1})) // at, one nanosecond before / after
	g.add("st")
	return lib.Case{Header: c15Header(w, d, c0), Ops: g.ops}
}

func c15Fixed() []lib.Case {
	return []lib.Case{
		// D15 witness: sr 3 dies while checkpoint 1 is pending in the store and half aligned at operator 0;
		// after recovery with sr 4 the next checkpoint must complete.
		{Header: c15Header(2, 5, 0), Tags: []string{"D15"}, Ops: []string{
			"reg o 0", "reg o 1", "reg s 2", "reg s 3", "deployok", "tick", "ack s 2 1", "bar 0 2 1", "st",
			"dereg s 3", "reg s 4", "deployok", "st", "tick", "ack s 2 2", "ack s 4 2",
			"bar 0 2 2", "bar 0 4 2", "bar 1 2 2", "bar 1 4 2", "st"}},
		// plain redeploy (no checkpoint in flight) followed by a checkpoint: the store must still be able to publish
		{Header: c15Header(1, 5, 0), Tags: []string{"D15"}, Ops: []string{
			"reg o 0", "reg s 1", "deployok", "tick", "ack s 1 1", "bar 0 1 1", "dereg s 1", "reg s 2", "deployok",
			"tick", "ack s 2 2", "bar 0 2 2", "st"}},
		// a surviving operator completes the alignment of the abandoned checkpoint while the new deployment is being
		// started; the job refuses the acknowledgement, the completed record stays — and must be gone after the deploy
		{Header: c15Header(2, 5, 0), Tags: []string{"refused-ack"}, Ops: []string{
			"reg o 0", "reg o 1", "reg s 2", "reg s 3", "deployok", "tick", "ack s 2 1", "ack s 3 1", "bar 0 2 1", "dereg s 3", "reg s 4",
			"bar 0 3 1", "st", "bar 0 3 1", "deployok", "tick", "ack s 2 2", "ack s 4 2", "bar 0 2 2", "bar 0 4 2", "bar 1 2 2", "bar 1 4 2", "st"}},
		// D56 (open finding): one barrier of an older checkpoint right after the deployment wedges operator 0: the round
		// of checkpoint 1 mismatches, ticks answer retry; only the next redeploy (sr 1 -> sr 2) clears it
		{Header: c15Header(1, 5, 0), Tags: []string{"D56"}, Ops: []string{
			"reg o 0", "reg s 1", "deployok", "bar 0 1 7", "st", "tick", "ack s 1 1", "bar 0 1 1", "tick", "bar 0 1 1", "st",
			"dereg s 1", "reg s 2", "deployok", "tick", "ack s 2 2", "bar 0 2 2", "st"}},
		// D56 with two runners: the half-aligned stale record parks its sender and rejects the other runner's barrier
		{Header: c15Header(1, 5, 0), Tags: []string{"D56"}, Ops: []string{
			"reg o 0", "reg s 1", "deployok", "tick", "ack s 1 1", "bar 0 1 1", "bar 0 1 1", "tick", "ack s 1 2", "bar 0 1 2", "st"}},
		{Header: c15Header(2, 5, 0), Tags: []string{"D56"}, Ops: []string{
			"reg o 0", "reg o 1", "reg s 2", "reg s 3", "deployok", "bar 0 2 7", "tick", "ack s 2 1", "ack s 3 1", "ev 0 2 5", "bar 0 3 1",
			"bar 0 2 1", "bar 1 2 1", "bar 1 3 1", "st"}},
		// D57 (open finding): the ticker callback is not a task. Operator 1 deregisters and operator 4 takes its place
		// between the callback's read of the assembly and CreateCheckpoint: the job ends up Running on {0,4} with a pending
		// snapshot that waits for operator 1, and every later tick answers retry
		{Header: c15Header(2, 5, 0), Tags: []string{"D57"}, Ops: []string{
			"reg o 0", "reg o 1", "reg s 2", "reg s 3", "deployok", "ticka", "dereg o 1", "reg o 4", "tickb", "tickc", "deployok", "st",
			"tick", "ack s 2 1", "ack s 3 1", "bar 0 2 1", "bar 0 3 1", "bar 4 2 1", "bar 4 3 1", "tick", "st"}},
		// the callback in pieces with nothing in between, and a pause inside it
		{Header: c15Header(1, 5, 0), Tags: []string{"D57"}, Ops: []string{
			"reg o 0", "reg s 1", "deployok", "ticka", "tickb", "tickc", "ack s 1 1", "bar 0 1 1", "ticka", "dereg s 1", "tickb", "tickc",
			"st", "ticka", "reg s 2", "deployok", "ticka", "tickb", "tickb", "tickc", "tickc", "st"}},
		// D71 (open finding): runner 1 stops answering right after its Deploy; the AssignSplits task never returns, the
		// queue is stuck: the deregistration and the heartbeat expiry are never processed
		{Header: c15Header(1, 5, 0), Tags: []string{"D71"}, Ops: []string{
			"reg o 0", "reg s 1", "hang s 1", "deployok", "dereg s 1", "adv 6", "reg o 0", "deployok", "tick", "savepoint", "st"}},
		// an operator that stops answering UpdateRetainedCheckpoints blocks only the retained-ids goroutine: the job still
		// pauses, redeploys and checkpoints; no further retained lists go out (seeded C15-7 puts that call on the queue)
		{Header: c15Header(1, 5, 4), Tags: []string{"unresponsive"}, Ops: []string{
			"reg o 0", "reg s 1", "deployok", "hang o 0", "tick", "ack s 1 5", "bar 0 1 5", "dereg s 1", "adv 6", "reg o 0", "reg s 2",
			"deployok", "tick", "ack s 2 6", "bar 0 2 6", "st"}},
		// savepoint requests (they run off the task queue like the ticker callback): as one step, joined to a pending
		// checkpoint, refused when not running or already requested; in pieces with a member replaced in between (D57)
		{Header: c15Header(1, 5, 0), Tags: []string{"savepoint"}, Ops: []string{
			"savepoint", "reg o 0", "reg s 1", "savepoint", "deployok", "savepoint", "savepoint", "tick", "ack s 1 1", "bar 0 1 1", "tick", "savepoint",
			"savepoint", "ack s 1 2", "bar 0 1 2", "dereg s 1", "savepoint", "spa", "st"}},
		{Header: c15Header(2, 5, 0), Tags: []string{"D57"}, Ops: []string{
			"reg o 0", "reg o 1", "reg s 2", "reg s 3", "deployok", "spa", "dereg o 1", "reg o 4", "tickb", "tickc", "deployok", "st", "tick",
			"savepoint", "savepoint"}},
		// ticker callbacks truly concurrent with membership tasks (for the -race build; always answered ok)
		{Header: c15Header(1, 5, 0), Tags: []string{"raceprobe"}, Ops: []string{"reg o 0", "reg s 1", "deployok", "raceprobe 40"}},
		// one checkpoint per deployment: checkpoint 1 is complete but its file is still being written when runner 1 is
		// lost; the new deployment is decided from "none"; the file is written while the Deploy calls are out; operators
		// AND the source splitter must be started from "none" (seeded change C15-5 reads the checkpoint twice)
		{Header: c15Header(1, 5, 0), Tags: []string{"one-checkpoint"}, Ops: []string{
			"reg o 0", "reg s 1", "deployok", "holdpub", "tick", "ack s 1 1", "bar 0 1 1", "st", "dereg s 1", "reg s 2", "relpub", "st",
			"deployok", "tick", "ack s 2 2", "bar 0 2 2", "dereg s 2", "reg s 3", "deployok", "st"}},
		{Header: c15Header(2, 5, 4), Tags: []string{"one-checkpoint"}, Ops: []string{
			"reg o 0", "reg o 1", "reg s 2", "reg s 3", "deployok", "holdpub", "tick", "ack s 2 5", "ack s 3 5", "bar 0 2 5", "bar 0 3 5",
			"bar 1 2 5", "bar 1 3 5", "tick", "ack s 2 6", "dereg o 1", "reg o 4", "relpub", "deployok", "st"}},
		// D45 (open finding): an event queued at surviving operator 0 in the first deployment is handed to the handler in
		// the second one, on the restored state; what the replaced runner 3 still sends afterwards is refused (D69)
		{Header: c15Header(2, 5, 0), Tags: []string{"D45"}, Ops: []string{
			"reg o 0", "reg o 1", "reg s 2", "reg s 3", "deployok", "ev 0 2 7", "flush 1", "st", "dereg s 3", "reg s 4", "deployok",
			"ev 0 3 11", "bar 0 3 1", "ev 0 2 8", "ev 0 4 9", "ev 1 4 10", "flush 1", "flush 0", "st"}},
		// the "spontaneous" start failures seen by the C01 cluster: worker (0,2) halts silently; the surviving worker
		// (1,3) stops itself because its peer is unreachable and deregisters; a new worker (4,5) registers while the
		// heartbeats of 0 and 2 have not expired: the job assembles {0,4}/{2,5}, the deployment fails, and is retried at
		// once, again and again, until time passes and the dead nodes are purged
		{Header: c15Header(2, 5, 0), Tags: []string{"retry-burst"}, Ops: []string{
			"reg o 0", "reg o 1", "reg s 2", "reg s 3", "deployok", "dereg s 3", "dereg o 1", "reg o 4", "reg s 5",
			"deployfail 0", "deployfail 2", "deployfail 0", "st", "adv 6", "reg o 4", "deployfail 0", "st",
			"reg s 5", "reg o 6", "reg s 7", "deployok", "st"}},
		// failed deployment, standby present, heartbeat expiry
		{Header: c15Header(2, 5, 4), Ops: []string{
			"reg o 0", "reg o 1", "reg o 2", "reg s 3", "reg s 4", "deployfail 1", "deployok", "tick", "adv 6",
			"reg o 0", "st", "reg o 2", "reg s 3", "reg s 4", "reg o 5", "deployok", "tick", "st",
			"hbx 5 4", "hbx 5 5", "hbx 5 6", "hbx 0 0", "hbx 0 1", "hbx 3 2", "hbx 3 3", "hbx 3 4", "hbx 10 10", "hbx 10 11",
			"hbxn 5 -1", "hbxn 5 0", "hbxn 5 1", "hbxn 3 -1", "hbxn 3 0", "hbxn 3 1", "hbxn 0 0", "hbxn 0 1", "hbxn 10 -1000000", "hbxn 10 1000000"}},
	}
}

func propC15() *lib.Prop {
	return &lib.Prop{
		ID:   "C15",
		Corr: "Model/JobFsm.lean ↔ jobs.Job (task queue, registry, liveness, start), snapshots.Store pending snapshot, operator.Operator checkpoint record / HandleDeploy",
		Rule: "cases = action sequences (register/deregister/advance clock/deploy result/tick/acks/barriers) on the real Job with real Store and real Operators; non-trivial = the job was redeployed after having been Running and a job checkpoint was published after that redeploy, or a deployment failed",
		NumCases: func(tier string) int {
			if tier == "thorough" {
				return 12000
			}
			return 500
		},
		Gen:   c15Gen1,
		Impl:  c15Impl,
		Fixed: func(tier string) []lib.Case { return append(append(c15Fixed(), c15ClusterFixed()...), c15SrFixed()...) },
		MObs:  func(op string) bool { return op == "st" },
		Extra: func() map[string]any {
			c15StatsMu.Lock()
			defer c15StatsMu.Unlock()
			m := map[string]any{}
			for k, v := range c15Stats {
				m[k] = v
			}
			return map[string]any{"observations": m}
		},
		Nontrivial: func(c lib.Case, out []string) bool {
			deploys, ran := 0, false
			for i, o := range out {
				if strings.HasPrefix(c.Ops[i], "deployfail") && o != "nostart" {
					return true
				}
				if strings.HasPrefix(o, "Running start=") {
					deploys++
					ran = true
				}
				if ran && deploys >= 2 && strings.Contains(o, "pub=") {
					return true
				}
			}
			return false
		},
	}
}

// ================================================================ real worker processes

// C15 against REAL worker processes: the real jobs.Job (real snapshots.Store) drives real workers.Worker processes
// (real SourceRunner + real Operator, wired in-process). The harness only fixes the ORDER of things the processes do
// on their own, so that the run is one linearisation the model can replay:
//   * a worker's two registrations (and deregistrations) are collected and forwarded to the job operator first,
//     source runner second;
//   * Deploy calls are gated as in c15.go and answered by the real HandleDeploy of the target (a halted target is
//     unreachable, so whether a deployment succeeds is decided by the processes, not by the schedule);
//   * a source runner's checkpoint acknowledgement parks until `rack`; its barrier broadcast and the operators'
//     alignment and acknowledgements then run by themselves and the op waits (bounded) for them;
//   * deliveries to a halted operator vanish (no answer, no error), so survivors never stall on a dead peer.
// Worker k has operator id k and source runner id 5+k (k = 0..4).

type c15rReader struct {
	connectors.UnimplementedSourceReader
}

func (c15rReader) ReadEvents() ([][]byte, error)                 { time.Sleep(time.Millisecond); return nil, nil }
func (c15rReader) AssignSplits(sp []*workerpb.SourceSplit) error { return nil }
func (c15rReader) Checkpoint() [][]byte                          { return [][]byte{[]byte("c")} }

type c15rTicker struct {
	fn      func(*clocks.EveryContext)
	stopped bool
}

// a worker's clock: its register tickers are fired by `whb`
type c15rClock struct {
	mu      sync.Mutex
	tickers []*c15rTicker
}

func (c *c15rClock) Now() time.Time { return time.Unix(1000, 0) }
func (c *c15rClock) Every(d time.Duration, fn func(*clocks.EveryContext), label string) *clocks.Ticker {
	t := &c15rTicker{fn: fn}
	c.mu.Lock()
	c.tickers = append(c.tickers, t)
	c.mu.Unlock()
	return clocks.VerifNewTicker(func() {
		c.mu.Lock()
		t.stopped = true
		c.mu.Unlock()
	}, func() { fn(&clocks.EveryContext{}) })
}

type c15rWorker struct {
	num    int
	w      *workers.Worker
	clk    *c15rClock
	killed atomic.Bool
	cancel context.CancelFunc
}

type c15rAck struct {
	req     *jobpb.SourceRunnerCheckpointCompleteRequest
	release chan bool
	result  chan string
}

type c15Cluster struct {
	w       *c15World
	mu      sync.Mutex
	workers map[int]*c15rWorker
	regs    chan [2]int // kind ('o'/'s'), worker
	deregs  chan [2]int
	parked  map[int]*c15rAck // by worker
	ackCh   chan int
	// barrier deliveries: results per (sender worker, operator worker) of the current broadcast
	barRes map[[2]int]string
	barCh  chan struct{}
	opAck  map[int]string // last acknowledgement result of each operator
	srOps  map[int][]int  // operators (worker numbers) each runner was deployed with
}

func newC15Cluster(w *c15World) *c15Cluster {
	return &c15Cluster{w: w, workers: map[int]*c15rWorker{}, regs: make(chan [2]int, 64), deregs: make(chan [2]int, 64),
		parked: map[int]*c15rAck{}, ackCh: make(chan int, 64), barRes: map[[2]int]string{}, barCh: make(chan struct{}, 64),
		opAck: map[int]string{}, srOps: map[int][]int{}}
}

func c15rWorkerOf(id int) int {
	if id >= 5 {
		return id - 5
	}
	return id
}

// ---- what a worker sees of the job

type c15rJob struct {
	proto.NoopJob
	cl *c15Cluster
	wk *c15rWorker
}

func (j c15rJob) RegisterOperator(context.Context, *jobpb.NodeIdentity) error {
	j.cl.regs <- [2]int{'o', j.wk.num}
	return nil
}
func (j c15rJob) RegisterSourceRunner(context.Context, *jobpb.NodeIdentity) error {
	j.cl.regs <- [2]int{'s', j.wk.num}
	return nil
}
func (j c15rJob) DeregisterOperator(context.Context, *jobpb.NodeIdentity) error {
	j.cl.deregs <- [2]int{'o', j.wk.num}
	return nil
}
func (j c15rJob) DeregisterSourceRunner(context.Context, *jobpb.NodeIdentity) error {
	j.cl.deregs <- [2]int{'s', j.wk.num}
	return nil
}
func (j c15rJob) NotifySplitsFinished(context.Context, string, []string) error { return nil }
func (j c15rJob) OperatorCheckpointComplete(ctx context.Context, req *snapshotpb.OperatorCheckpoint) error {
	if j.wk.killed.Load() {
		return fmt.Errorf("halted")
	}
	res := j.cl.w.storeCall(func() error { return j.cl.w.job.HandleOperatorCheckpointComplete(ctx, req) })
	j.cl.mu.Lock()
	j.cl.opAck[j.wk.num] = res
	j.cl.mu.Unlock()
	if res == "ok" || strings.HasPrefix(res, "ok ") {
		return nil
	}
	return fmt.Errorf("%s", res)
}
func (j c15rJob) OnSourceRunnerCheckpointComplete(ctx context.Context, req *jobpb.SourceRunnerCheckpointCompleteRequest) error {
	if j.wk.killed.Load() {
		return fmt.Errorf("halted")
	}
	a := &c15rAck{req: req, release: make(chan bool, 1), result: make(chan string, 1)}
	j.cl.mu.Lock()
	if old := j.cl.parked[j.wk.num]; old != nil {
		old.release <- false
	}
	j.cl.parked[j.wk.num] = a
	j.cl.mu.Unlock()
	select {
	case j.cl.ackCh <- j.wk.num:
	default:
	}
	select {
	case ok := <-a.release:
		if !ok {
			return fmt.Errorf("connection lost")
		}
	case <-time.After(8 * c15W()):
		return fmt.Errorf("harness: acknowledgement never released")
	}
	res := j.cl.w.storeCall(func() error { return j.cl.w.job.HandleSourceRunnerCheckpointComplete(ctx, req) })
	a.result <- res
	if res == "ok" || strings.HasPrefix(res, "ok ") {
		return nil
	}
	return fmt.Errorf("%s", res)
}

// ---- a node's handle on an operator process (source runner -> operator traffic, neighbours)

type c15rOp struct {
	proto.UnimplementedOperator
	cl     *c15Cluster
	target *c15rWorker
	sender string
}

func (o *c15rOp) ID() string   { return c15ID(o.target.num) }
func (o *c15rOp) Host() string { return "h" }
func (o *c15rOp) HandleEventBatch(ctx context.Context, batch []*workerpb.Event) error {
	for _, e := range batch {
		if o.target.killed.Load() {
			return nil // the delivery vanishes
		}
		bar := e.GetCheckpointBarrier()
		if bar != nil {
			o.cl.mu.Lock()
			delete(o.cl.opAck, o.target.num)
			o.cl.mu.Unlock()
		}
		err := o.target.w.Operator.HandleEvent(ctx, o.sender, e)
		if bar != nil {
			res := c15ErrClass(err)
			o.cl.mu.Lock()
			if a, ok := o.cl.opAck[o.target.num]; ok {
				if err == nil {
					res = "acked"
					if i := strings.Index(a, "pub="); i >= 0 {
						res += " " + a[i:]
					}
				} else {
					res = "ackerr:" + strings.Fields(a)[0]
				}
			}
			o.cl.barRes[[2]int{c15rWorkerOf(c15Num(o.sender)), o.target.num}] = res
			o.cl.mu.Unlock()
			select {
			case o.cl.barCh <- struct{}{}:
			default:
			}
		}
		if err != nil && bar == nil {
			return nil // watermarks of a stale loop refused by a redeployed operator are not this property's business
		}
	}
	return nil
}
func (o *c15rOp) NeedsTable(ctx context.Context, uri string) (bool, error) { return false, nil }
func (o *c15rOp) UpdateRetainedCheckpoints(ctx context.Context, ids []uint64) error {
	return nil
}

func (cl *c15Cluster) opFactory(senderID string, node *jobpb.NodeIdentity) proto.Operator {
	cl.mu.Lock()
	t := cl.workers[c15Num(node.Id)]
	cl.mu.Unlock()
	return &c15rOp{cl: cl, target: t, sender: senderID}
}

// ---- worker life cycle

func (cl *c15Cluster) start(k int) {
	wk := &c15rWorker{num: k, clk: &c15rClock{}}
	cl.mu.Lock()
	cl.workers[k] = wk
	cl.mu.Unlock()
	wk.w = workers.VerifNewC01(workers.NewParams{Host: "h", Handler: c15Handler{w: cl.w, id: k}, Job: c15rJob{cl: cl, wk: wk},
		Clock: wk.clk, OperatorFactory: cl.opFactory, EventBatching: batching.EventBatcherParams{MaxSize: 1}},
		c15ID(k), c15ID(5+k), func(*jobconfigpb.Source) connectors.SourceReader { return c15rReader{} })
	quiet := slog.New(slog.NewTextHandler(c15Discard{}, nil))
	wk.w.Operator.Logger, wk.w.SourceRunner.Logger = quiet, quiet
	cl.w.ops[k] = wk.w.Operator
	ctx, cancel := context.WithCancel(context.Background())
	wk.cancel = cancel
	go func() {
		defer func() { recover() }()
		wk.w.Start(ctx)
	}()
}

// collect both (de)registrations of worker k (they come from two goroutines of the process)
func (cl *c15Cluster) collect(ch chan [2]int, k int) bool {
	seen := map[int]bool{}
	deadline := time.After(c15W())
	for len(seen) < 2 {
		select {
		case r := <-ch:
			if r[1] == k {
				seen[r[0]] = true
			}
		case <-deadline:
			return false
		}
	}
	return true
}

func (cl *c15Cluster) register(k int) string {
	cl.w.job.HandleRegisterOperator(&jobpb.NodeIdentity{Id: c15ID(k), Host: "h"})
	a := cl.w.settle()
	cl.w.job.HandleRegisterSourceRunner(&jobpb.NodeIdentity{Id: c15ID(5 + k), Host: "h"})
	return a + " ; " + cl.w.settle()
}

func (cl *c15Cluster) live(k int) *c15rWorker {
	cl.mu.Lock()
	defer cl.mu.Unlock()
	wk := cl.workers[k]
	if wk == nil || wk.killed.Load() {
		return nil
	}
	return wk
}

func (cl *c15Cluster) opStart(k int) string {
	cl.mu.Lock()
	_, exists := cl.workers[k]
	cl.mu.Unlock()
	if exists || k < 0 || k > 4 {
		return "exists"
	}
	cl.start(k)
	if !cl.collect(cl.regs, k) {
		return "timeout-register"
	}
	return cl.register(k)
}

func (cl *c15Cluster) opHeartbeat(k int) string {
	wk := cl.live(k)
	if wk == nil {
		return "dead"
	}
	wk.clk.mu.Lock()
	ts := append([]*c15rTicker(nil), wk.clk.tickers...)
	wk.clk.mu.Unlock()
	for _, t := range ts {
		if !t.stopped {
			t.fn(&clocks.EveryContext{})
		}
	}
	if !cl.collect(cl.regs, k) {
		return "timeout-register"
	}
	return cl.register(k)
}

func (cl *c15Cluster) dropAcks(k int) {
	cl.mu.Lock()
	for n, a := range cl.parked {
		if k < 0 || n == k {
			a.release <- false
			delete(cl.parked, n)
		}
	}
	cl.mu.Unlock()
}

func (cl *c15Cluster) opKill(k int) string {
	wk := cl.live(k)
	if wk == nil {
		return "dead"
	}
	wk.killed.Store(true)
	cl.dropAcks(k)
	func() {
		defer func() { recover() }()
		wk.w.Halt()
	}()
	return "ok"
}

func (cl *c15Cluster) opStop(k int) string {
	wk := cl.live(k)
	if wk == nil {
		return "dead"
	}
	wk.killed.Store(true)
	cl.dropAcks(k)
	func() {
		defer func() { recover() }()
		wk.w.Stop()
	}()
	if !cl.collect(cl.deregs, k) {
		return "timeout-deregister"
	}
	cl.w.job.HandleDeregisterSourceRunner(&jobpb.NodeIdentity{Id: c15ID(5 + k), Host: "h"})
	a := cl.w.settle()
	cl.w.job.HandleDeregisterOperator(&jobpb.NodeIdentity{Id: c15ID(k), Host: "h"})
	return a + " ; " + cl.w.settle()
}

// ---- called by the job's node handles (c15.go)

func (cl *c15Cluster) deploy(c *c15DeployCall) error {
	wk := cl.live(c15rWorkerOf(c.id))
	if wk == nil {
		return fmt.Errorf("node unreachable")
	}
	if c.kind == 'o' {
		req := gproto.Clone(c.opReq).(*workerpb.DeployOperatorRequest)
		req.Checkpoints = nil // the operator's DKV restore is not part of this property (C06/C08)
		err := wk.w.Operator.HandleDeploy(context.Background(), req, c15Sink{})
		if err == nil {
			cl.w.deployed[c.id] = true
			cl.w.noteSrcs(c.id, req.SourceRunnerIds)
		}
		return err
	}
	var ops []int
	for _, n := range c.srReq.Operators {
		ops = append(ops, c15Num(n.Id))
	}
	cl.mu.Lock()
	cl.srOps[wk.num] = ops
	cl.mu.Unlock()
	return wk.w.SourceRunner.HandleDeploy(context.Background(), c.srReq)
}

func (cl *c15Cluster) startCheckpoint(srID int, id uint64) error {
	wk := cl.live(c15rWorkerOf(srID))
	if wk == nil {
		return nil // the request vanishes
	}
	done := make(chan struct{})
	go func() {
		defer func() { recover() }()
		wk.w.SourceRunner.HandleStartCheckpoint(context.Background(), id)
		close(done)
	}()
	select {
	case <-done:
	case <-time.After(c15W()):
	}
	return nil
}

// awaitAcks waits until every live runner that was told to start the checkpoint has reached its (parked)
// acknowledgement, so that no checkpoint request is still travelling inside a runner when the next op runs
func (cl *c15Cluster) awaitAcks(cs [][2]uint64) bool {
	deadline := time.After(c15W())
	for {
		missing := false
		cl.mu.Lock()
		for _, c := range cs {
			k := c15rWorkerOf(int(c[0]))
			wk := cl.workers[k]
			if wk == nil || wk.killed.Load() {
				continue
			}
			if a := cl.parked[k]; a == nil || a.req.CheckpointId != c[1] {
				missing = true
			}
		}
		cl.mu.Unlock()
		if !missing {
			return true
		}
		select {
		case <-cl.ackCh:
		case <-deadline:
			return false
		}
	}
}

func (cl *c15Cluster) assignSplits(srID int) error {
	wk := cl.live(c15rWorkerOf(srID))
	if wk == nil {
		return nil
	}
	return wk.w.SourceRunner.HandleAssignSplits(nil)
}

// ---- ops

func (cl *c15Cluster) opDeploy() string {
	w := cl.w
	if w.batch == nil {
		return "nostart"
	}
	cl.dropAcks(-1) // acknowledgements of the previous deployment still in transit are lost with it
	anyDead := false
	for _, c := range w.batch {
		if cl.live(c15rWorkerOf(c.id)) == nil {
			anyDead = true
		}
	}
	if !anyDead {
		return w.deployOK()
	}
	w.release(-1)
	return w.afterFailedDeploy()
}

// rack releases the parked acknowledgement of worker k's source runner and waits for what follows by itself:
// the runner's barrier at every live operator it was deployed with, their alignment and acknowledgements
func (cl *c15Cluster) opRack(k int) string {
	if cl.live(k) == nil {
		return "none"
	}
	if _, _, waitingSrs, ok := cl.w.job.VerifStoreC15().VerifPendingC15(); !ok || !c15HasStr(waitingSrs, c15ID(5+k)) {
		return "none" // the store is not waiting for this runner
	}
	// the runner reaches its acknowledgement by itself after StartCheckpoint; give it time to get there
	deadline := time.After(c15W())
	var a *c15rAck
	for a == nil {
		cl.mu.Lock()
		a = cl.parked[k]
		cl.mu.Unlock()
		if a != nil {
			break
		}
		select {
		case <-cl.ackCh:
		case <-deadline:
			return "timeout-ack"
		}
	}
	cl.mu.Lock()
	delete(cl.parked, k)
	ops := append([]int(nil), cl.srOps[k]...)
	for _, i := range ops {
		delete(cl.barRes, [2]int{k, i})
	}
	cl.mu.Unlock()
	for len(cl.barCh) > 0 {
		<-cl.barCh
	}
	a.release <- true
	var res string
	select {
	case res = <-a.result:
	case <-time.After(c15W()):
		return "timeout-ack"
	}
	if !(res == "ok" || strings.HasPrefix(res, "ok ")) {
		return res
	}
	var liveOps []int
	for _, i := range ops {
		if cl.live(i) != nil {
			liveOps = append(liveOps, i)
		}
	}
	sort.Ints(liveOps)
	deadline = time.After(c15W())
	for {
		cl.mu.Lock()
		n := 0
		for _, i := range liveOps {
			if _, ok := cl.barRes[[2]int{k, i}]; ok {
				n++
			}
		}
		cl.mu.Unlock()
		if n == len(liveOps) {
			break
		}
		select {
		case <-cl.barCh:
		case <-deadline:
			return res + " timeout-barriers"
		}
	}
	pub := ""
	if i := strings.Index(res, "pub="); i >= 0 {
		pub = res[i:]
		res = strings.TrimSpace(res[:i])
	}
	cl.mu.Lock()
	for _, i := range liveOps {
		r := cl.barRes[[2]int{k, i}]
		if j := strings.Index(r, "pub="); j >= 0 {
			pub = r[j:]
			r = strings.TrimSpace(r[:j])
		}
		res += fmt.Sprintf(" b%d=%s", i, r)
	}
	cl.mu.Unlock()
	if pub != "" {
		res += " " + pub
	}
	return res
}

func c15HasStr(xs []string, x string) bool {
	for _, y := range xs {
		if y == x {
			return true
		}
	}
	return false
}

func (cl *c15Cluster) close() {
	cl.dropAcks(-1)
	cl.mu.Lock()
	ws := make([]*c15rWorker, 0, len(cl.workers))
	for _, wk := range cl.workers {
		ws = append(ws, wk)
	}
	cl.mu.Unlock()
	for _, wk := range ws {
		if !wk.killed.Swap(true) {
			func() {
				defer func() { recover() }()
				wk.w.Halt()
			}()
		}
		wk.cancel()
	}
}

func c15ClusterHeader(w, d, c0 int) string {
	return fmt.Sprintf("M C15 %d %d %d %d R", w, d, c0, c15BatchMax)
}

// clusterOp runs one op of a real-worker case; ok=false: not a cluster op
func (cl *c15Cluster) clusterOp(a []string) (string, bool) {
	atoi := func(s string) int { n, _ := strconv.Atoi(s); return n }
	switch {
	case len(a) == 2 && a[0] == "wstart":
		return cl.opStart(atoi(a[1])), true
	case len(a) == 2 && a[0] == "whb":
		return cl.opHeartbeat(atoi(a[1])), true
	case len(a) == 2 && a[0] == "wkill":
		return cl.opKill(atoi(a[1])), true
	case len(a) == 2 && a[0] == "wstop":
		return cl.opStop(atoi(a[1])), true
	case len(a) == 1 && a[0] == "wdeploy":
		return cl.opDeploy(), true
	case len(a) == 2 && a[0] == "rack":
		return cl.opRack(atoi(a[1])), true
	}
	return "", false
}

// ---------------------------------------------------------------- generator (real workers)

type c15rGen struct {
	r       *lib.Rng
	w, d    int
	ops     []string
	next    int
	live    []int
	pending bool
}

func (g *c15rGen) add(s string, a ...any) { g.ops = append(g.ops, fmt.Sprintf(s, a...)) }

func (g *c15rGen) startWorker() bool {
	if g.next > 4 {
		return false
	}
	g.add("wstart %d", g.next)
	g.live = append(g.live, g.next)
	g.next++
	return true
}

// heartbeats of every live worker after the deadline has passed: expired nodes are purged on the way
func (g *c15rGen) expiry() {
	g.add("adv %d", g.d+1)
	for _, k := range g.live {
		g.add("whb %d", k)
	}
}

func (g *c15rGen) round(full bool) {
	g.add("tick")
	ks := append([]int(nil), g.live...)
	if g.r.Bool() {
		for i := len(ks) - 1; i > 0; i-- {
			j := g.r.Intn(i + 1)
			ks[i], ks[j] = ks[j], ks[i]
		}
	}
	n := len(ks)
	if !full {
		n = g.r.Intn(len(ks) + 1)
	}
	for _, k := range ks[:n] {
		g.add("rack %d", k)
	}
}

func (g *c15rGen) lose() {
	if len(g.live) == 0 {
		return
	}
	k := lib.Pick(g.r, g.live)
	g.live = c15Remove(g.live, k)
	if g.r.Chance(1, 3) {
		g.add("wstop %d", k)
	} else {
		g.add("wkill %d", k)
	}
}

func c15GenCluster(r *lib.Rng, tier string) lib.Case {
	w := lib.Pick(r, []int{1, 2, 2})
	d := 5
	g := &c15rGen{r: r, w: w, d: d}
	for i := 0; i < w; i++ {
		g.startWorker()
	}
	if r.Chance(1, 2) {
		g.startWorker() // standby
	}
	g.add("wdeploy")
	rounds := r.Range(1, 3)
	for i := 0; i < rounds; i++ {
		switch r.Intn(6) {
		case 0: // loss while idle
			g.round(true)
			g.lose()
		case 1, 2: // loss during an in-flight checkpoint
			g.round(false)
			g.lose()
		case 3: // loss during deployment: the deployment in flight contains a halted node
			g.lose()
			g.expiry()
			for len(g.live) < w && g.startWorker() {
			}
			g.lose()
			g.add("wdeploy")
		default:
			g.round(true)
			continue
		}
		if r.Chance(1, 2) {
			g.add("st")
		}
		// recovery: replacements (or the standby), expiry of the lost nodes, as many attempts as it takes
		for len(g.live) < w && g.startWorker() {
		}
		g.add("wdeploy")
		g.expiry()
		g.add("wdeploy")
		g.add("wdeploy")
		g.round(true)
	}
	g.add("st")
	return lib.Case{Header: c15ClusterHeader(w, d, 0), Ops: g.ops, Tags: []string{"real-workers"}}
}

func c15ClusterFixed() []lib.Case {
	return []lib.Case{
		// kill during an in-flight checkpoint, no standby: worker 1 halts after worker 0's runner acknowledged
		{Header: c15ClusterHeader(2, 5, 0), Tags: []string{"real-workers"}, Ops: []string{
			"wstart 0", "wstart 1", "wdeploy", "tick", "rack 0", "st", "wkill 1", "wstart 2", "adv 6", "whb 0", "whb 2", "wdeploy",
			"st", "tick", "rack 0", "rack 2", "st"}},
		// standby present: graceful stop of a member, immediate redeploy on the standby, then a kill during that deployment
		{Header: c15ClusterHeader(1, 5, 0), Tags: []string{"real-workers"}, Ops: []string{
			"wstart 0", "wstart 1", "wdeploy", "tick", "rack 0", "wstop 0", "wkill 1", "wdeploy", "wdeploy", "wstart 2", "adv 6", "whb 2",
			"wdeploy", "tick", "rack 2", "st"}},
	}
}

// ================================================================ one real source runner process (finding D48)
//
// Header `M C15 1 5 0 3 S`, ops r.deploy / r.hold / r.start <id> / r.pend <id>: lockstep of the real
// sourcerunner.SourceRunner (HandleDeploy, HandleStartCheckpoint, its event loops and their acknowledgements) against
// Model/RunnerProc.lean. The job side accepts an acknowledgement only for the pending id the case sets; the reader of
// the current deployment can be made to block inside a read (`r.hold`), which keeps that event loop busy.

type c15SrJob struct {
	proto.NoopJob
	mu      sync.Mutex
	pending uint64
	has     bool
	acks    chan [2]uint64 // id, accepted
}

func (j *c15SrJob) RegisterSourceRunner(context.Context, *jobpb.NodeIdentity) error { return nil }
func (j *c15SrJob) RegisterOperator(context.Context, *jobpb.NodeIdentity) error     { return nil }
func (j *c15SrJob) NotifySplitsFinished(context.Context, string, []string) error    { return nil }
func (j *c15SrJob) OnSourceRunnerCheckpointComplete(ctx context.Context, req *jobpb.SourceRunnerCheckpointCompleteRequest) error {
	j.mu.Lock()
	ok := j.has && j.pending == req.CheckpointId
	j.mu.Unlock()
	if ok {
		j.acks <- [2]uint64{req.CheckpointId, 1}
		return nil
	}
	j.acks <- [2]uint64{req.CheckpointId, 0}
	return fmt.Errorf("no pending checkpoint with this id")
}

type c15SrReader struct {
	connectors.UnimplementedSourceReader
	hold    atomic.Bool
	reading chan struct{}
	release chan struct{}
}

func (r *c15SrReader) AssignSplits([]*workerpb.SourceSplit) error { return nil }
func (r *c15SrReader) Checkpoint() [][]byte                       { return nil }
func (r *c15SrReader) ReadEvents() ([][]byte, error) {
	if r.hold.Load() {
		select {
		case r.reading <- struct{}{}:
		default:
		}
		<-r.release
	}
	time.Sleep(200 * time.Microsecond)
	return nil, nil
}

type c15SrOp struct{ proto.UnimplementedOperator }

func (*c15SrOp) ID() string                                                { return "n0" }
func (*c15SrOp) Host() string                                              { return "h" }
func (*c15SrOp) HandleEventBatch(context.Context, []*workerpb.Event) error { return nil }

type c15SrWorld struct {
	sr       *sourcerunner.SourceRunner
	job      *c15SrJob
	readers  []*c15SrReader
	cancel   context.CancelFunc
	loops    int // event loops started (one per HandleDeploy)
	held     int // loops seen parked inside a read
	refused  int // acknowledgements refused: each ends the loop that sent it
	occupied bool
}

func newC15SrWorld() *c15SrWorld {
	w := &c15SrWorld{job: &c15SrJob{acks: make(chan [2]uint64, 16)}}
	quiet := slog.New(slog.NewTextHandler(c15Discard{}, nil))
	slog.SetDefault(quiet)
	w.sr = sourcerunner.New(sourcerunner.NewParams{Host: "h", UserHandler: c15Handler{w: nil}, Job: w.job, Clock: clocks.NewFrozenClock(),
		OperatorFactory: func(string, *jobpb.NodeIdentity) proto.Operator { return &c15SrOp{} },
		SourceReaderFactory: func(*jobconfigpb.Source) connectors.SourceReader {
			r := &c15SrReader{reading: make(chan struct{}, 1), release: make(chan struct{})}
			w.readers = append(w.readers, r)
			return r
		},
		EventBatching: batching.EventBatcherParams{MaxSize: 1}})
	w.sr.Logger = quiet
	ctx, cancel := context.WithCancel(context.Background())
	w.cancel = cancel
	go func() {
		defer func() { recover() }()
		w.sr.Start(ctx)
	}()
	return w
}

func (w *c15SrWorld) free() int { return w.loops - w.held - w.refused }

// the acknowledgement a free loop sends for the queued request
func (w *c15SrWorld) awaitTake() string {
	select {
	case a := <-w.job.acks:
		w.occupied = false
		if a[1] == 1 {
			return fmt.Sprintf("acked %d", a[0])
		}
		w.refused++
		return fmt.Sprintf("refused %d", a[0])
	case <-time.After(c15W()):
		return "timeout-take"
	}
}

func (w *c15SrWorld) op(a []string) string {
	atoi := func(s string) int { n, _ := strconv.Atoi(s); return n }
	switch {
	case len(a) == 1 && a[0] == "r.deploy":
		err := w.sr.HandleDeploy(context.Background(), &workerpb.DeploySourceRunnerRequest{
			Operators: []*jobpb.NodeIdentity{{Id: "n0", Host: "h"}}, KeyGroupCount: 8, Sources: []*jobconfigpb.Source{{}}})
		if err != nil {
			return c15ErrClass(err)
		}
		// the assignment is handed over through a one-slot channel that only an event loop empties: if the new loop
		// ends on a stale checkpoint request before it gets there, the slot stays full, so do not wait here
		go func() {
			defer func() { recover() }()
			w.sr.HandleAssignSplits([]*workerpb.SourceSplit{{SplitId: "0", SourceId: "s"}})
		}()
		w.loops++
		if w.occupied {
			return "deployed " + w.awaitTake()
		}
		return "deployed"
	case len(a) == 1 && a[0] == "r.hold":
		if w.free() <= 0 || len(w.readers) == 0 {
			return "nohold"
		}
		r := w.readers[len(w.readers)-1]
		if r.hold.Load() {
			return "nohold" // the reader serves one read at a time: a second loop cannot get stuck in it
		}
		r.hold.Store(true)
		select {
		case <-r.reading:
			w.held++
			return "held"
		case <-time.After(c15W()):
			return "timeout-hold"
		}
	case len(a) == 2 && a[0] == "r.start":
		if w.occupied {
			return "full" // HandleStartCheckpoint would block on the channel
		}
		done := make(chan struct{})
		go func() {
			defer close(done)
			defer func() { recover() }()
			w.sr.HandleStartCheckpoint(context.Background(), uint64(atoi(a[1])))
		}()
		select {
		case <-done:
		case <-time.After(c15W()):
			return "timeout-start"
		}
		w.occupied = true
		if w.free() > 0 {
			return w.awaitTake()
		}
		return "queued"
	case len(a) == 2 && a[0] == "r.pend":
		w.job.mu.Lock()
		w.job.pending, w.job.has = uint64(atoi(a[1])), true
		w.job.mu.Unlock()
		return "ok"
	}
	return "bad-op"
}

func (w *c15SrWorld) close() {
	for _, r := range w.readers {
		func() {
			defer func() { recover() }()
			close(r.release)
		}()
	}
	w.cancel()
}

func c15SrImpl(c lib.Case) []string {
	w := newC15SrWorld()
	defer w.close()
	out := make([]string, 0, len(c.Ops))
	for _, line := range c.Ops {
		a := strings.Fields(line)
		o := w.op(a)
		out = append(out, o)
		c15Count(a, o)
		if strings.Contains(o, "timeout-") {
			c15Timeouts.Add(1)
			for len(out) < len(c.Ops) {
				out = append(out, "skipped-after-timeout")
			}
			break
		}
	}
	return out
}

func c15SrHeader() string { return "M C15 1 5 0 3 S" }

func c15GenRunner(r *lib.Rng) lib.Case {
	var ops []string
	id, pend, queued, free := 0, 0, false, 0
	ops = append(ops, "r.deploy")
	free = 1
	for n := r.Range(4, 14); n > 0; n-- {
		switch r.Intn(6) {
		case 0:
			if free > 0 {
				continue // several live loops of one runner race for everything (D39): not a deterministic lockstep
			}
			ops = append(ops, "r.deploy")
			free++
			if queued {
				queued = false
				if pend != id {
					free--
				}
			}
		case 1:
			if free > 0 && r.Chance(1, 2) {
				ops = append(ops, "r.hold")
				free--
			}
		default:
			// the job starts its next checkpoint (sometimes it has already abandoned it when the request arrives)
			id++
			if r.Chance(4, 5) {
				pend = id
				ops = append(ops, fmt.Sprintf("r.pend %d", pend))
			}
			if !queued {
				ops = append(ops, fmt.Sprintf("r.start %d", id))
				if free == 0 {
					queued = true
				} else if pend != id {
					free--
				}
			}
			if queued && r.Chance(1, 2) { // the job gives the checkpoint up and moves on
				id++
				pend = id
				ops = append(ops, fmt.Sprintf("r.pend %d", pend))
			}
		}
	}
	return lib.Case{Header: c15SrHeader(), Ops: ops, Tags: []string{"runner-process"}}
}

func c15SrFixed() []lib.Case {
	return []lib.Case{
		// D48: the request for checkpoint 1 is queued behind a slow read; the job abandons it and redeploys the runner;
		// the new loop acknowledges 1, is refused and ends; the request for checkpoint 2 is never taken up
		{Header: c15SrHeader(), Tags: []string{"D48"}, Ops: []string{"r.deploy", "r.hold", "r.pend 1", "r.start 1", "r.pend 2", "r.deploy", "r.start 2", "r.start 3"}},
		// the same runner without a queued request at the redeploy keeps acknowledging
		{Header: c15SrHeader(), Tags: []string{"runner-process"}, Ops: []string{"r.deploy", "r.pend 1", "r.start 1", "r.hold", "r.deploy", "r.pend 2", "r.start 2", "r.hold", "r.start 3", "r.hold", "r.pend 3"}},
	}
}
