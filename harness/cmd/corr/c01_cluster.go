package main

// C01 mini-cluster: the REAL jobs.Job (with its real snapshots.Store), REAL workers.Worker processes (real
// SourceRunner + Operator + DKV on a temp directory) wired together in-process by adapters implementing
// proto.Job / proto.Operator / proto.SourceRunner. Harness-supplied parts: the scripted source connector
// (splitter + reader over per-split record lists), the reference handler (its state IS the ghost log), the clocks,
// the gated job storage location and the gated acknowledgement path.
//
// Every observable action is appended to one event log under one mutex (the linearisation the Lean driver
// validates against Model/Pipeline.lean):
//   r:<sp>:<i>:<k>            the reader of the split's runner handed out record i (key k) of split sp
//   d:<o>:<sp>:<i>:<k>|<st>   operator o's handler invocation for that record; <st> = the key state it was given
//   t:<id>                    the job started checkpoint id (StartCheckpoint reached a runner)
//   b:<r>:<id>:<sp=c,...>     runner r acknowledged checkpoint id with these split cursors (then sends its barrier)
//   c:<o>:<id>                operator o acknowledged its aligned checkpoint id
//   p:<id>                    job checkpoint id became the job's current checkpoint (file written)
//   k:<w>                     worker w halted
//   x:<w>                     worker w stopped itself (its source runner met an unreachable operator)
//   R:<n>:<ck>:<c0.c1...>:<j|w>  deployment finished: n workers, restored from checkpoint ck with these cursors
//   L:<n>:<ck>:<c0.c1...>:<j|w>  the same, but a node process of the new assembly had been deployed before (D39)
//   z...                      activity of a halted worker (ignored by the model)
//   sa:... / !...             things that must not happen (the model has no such step)

import (
	"bytes"
	"context"
	"encoding/binary"
	"fmt"
	"io"
	"iter"
	"log/slog"
	"os"
	"sort"
	"strconv"
	"strings"
	"sync"
	"sync/atomic"
	"time"

	gproto "google.golang.org/protobuf/proto"
	"reduction.dev/reduction-protocol/handlerpb"
	"reduction.dev/reduction-protocol/jobconfigpb"
	"reduction.dev/reduction/batching"
	"reduction.dev/reduction/clocks"
	"reduction.dev/reduction/config"
	"reduction.dev/reduction/connectors"
	"reduction.dev/reduction/jobs"
	"reduction.dev/reduction/proto"
	"reduction.dev/reduction/proto/jobpb"
	"reduction.dev/reduction/proto/snapshotpb"
	"reduction.dev/reduction/proto/workerpb"
	"reduction.dev/reduction/storage/locations"
	"reduction.dev/reduction/storage/objstore"
	"reduction.dev/reduction/workers"
)

// grace periods: a wait that expires only reduces coverage (the op reports what happened so far)
var (
	c01Grace     = 3 * time.Second
	c01GateGrace = 1500 * time.Millisecond
)

const c01Heartbeat = 5 // seconds

var errC01Unreachable = fmt.Errorf("harness: node unreachable")

// ---------------------------------------------------------------- clock

type c01Ticker struct {
	label   string
	fn      func(*clocks.EveryContext)
	stopped bool
}

type c01Clock struct {
	mu      sync.Mutex
	now     time.Time
	tickers []*c01Ticker
}

func newC01Clock() *c01Clock { return &c01Clock{now: time.Unix(1000, 0)} }

func (c *c01Clock) Now() time.Time {
	c.mu.Lock()
	defer c.mu.Unlock()
	return c.now
}

func (c *c01Clock) advance(d time.Duration) {
	c.mu.Lock()
	c.now = c.now.Add(d)
	c.mu.Unlock()
}

func (c *c01Clock) Every(d time.Duration, fn func(*clocks.EveryContext), label string) *clocks.Ticker {
	t := &c01Ticker{label: label, fn: fn}
	c.mu.Lock()
	c.tickers = append(c.tickers, t)
	c.mu.Unlock()
	return clocks.VerifNewTicker(func() {
		c.mu.Lock()
		t.stopped = true
		c.mu.Unlock()
	}, func() { fn(&clocks.EveryContext{}) })
}

// fire runs the live tickers with the label (the newest only when last is set); returns how many ran
func (c *c01Clock) fire(label string, last bool) int {
	c.mu.Lock()
	var fns []func(*clocks.EveryContext)
	for _, t := range c.tickers {
		if t.label == label && !t.stopped {
			fns = append(fns, t.fn)
		}
	}
	c.mu.Unlock()
	if last && len(fns) > 1 {
		fns = fns[len(fns)-1:]
	}
	for _, fn := range fns {
		fn(&clocks.EveryContext{})
	}
	return len(fns)
}

// ---------------------------------------------------------------- gated job storage

type c01Write struct {
	id      uint64
	gen     int
	release chan bool
}

// one view per job process (gen) on the shared storage, so that a write is attributed to the job that issued it
type c01Loc struct {
	w   *c01World
	gen int
	mu  *sync.Mutex
	loc locations.StorageLocation
}

func (l *c01Loc) Write(path string, data io.Reader) (string, error) {
	b, err := io.ReadAll(data)
	if err != nil {
		return "", err
	}
	if strings.HasSuffix(path, ".snapshot") {
		var ck snapshotpb.JobCheckpoint
		if err := gproto.Unmarshal(b, &ck); err == nil {
			pw := &c01Write{id: ck.Id, release: make(chan bool, 1)}
			l.w.mu.Lock()
			pw.gen = l.gen
			dead := l.gen != l.w.jobGen || l.w.jobDown
			if !dead {
				l.w.writes = append(l.w.writes, pw)
			}
			l.w.mu.Unlock()
			if dead {
				return "", fmt.Errorf("harness: job process died before the write")
			}
			select {
			case ok := <-pw.release:
				if !ok {
					return "", fmt.Errorf("harness: job process died before the write")
				}
			case <-l.w.closing:
				return "", fmt.Errorf("harness: case over")
			}
		}
	}
	l.mu.Lock()
	defer l.mu.Unlock()
	return l.loc.Write(path, bytes.NewBuffer(b))
}
func (l *c01Loc) Read(path string) ([]byte, error) {
	l.mu.Lock()
	defer l.mu.Unlock()
	return l.loc.Read(path)
}
func (l *c01Loc) List() iter.Seq2[string, error] {
	l.mu.Lock()
	defer l.mu.Unlock()
	type ent struct {
		p string
		e error
	}
	var all []ent
	for p, e := range l.loc.List() {
		all = append(all, ent{p, e})
	}
	return func(yield func(string, error) bool) {
		for _, x := range all {
			if !yield(x.p, x.e) {
				return
			}
		}
	}
}
func (l *c01Loc) URI(path string) (string, error) {
	l.mu.Lock()
	defer l.mu.Unlock()
	return l.loc.URI(path)
}
func (l *c01Loc) Copy(src string, dst string) error {
	l.mu.Lock()
	defer l.mu.Unlock()
	return l.loc.Copy(src, dst)
}
func (l *c01Loc) Remove(paths ...string) error {
	l.mu.Lock()
	defer l.mu.Unlock()
	return l.loc.Remove(paths...)
}

// ---------------------------------------------------------------- world

type c01Ack struct {
	kind    byte // 'r' runner, 'o' operator
	wk      *c01Worker
	id      uint64
	dep     int // deployment the acknowledging process belonged to when it took its snapshot
	extra   string
	call    func(job *jobs.Job) error
	release chan bool
	done    chan struct{}
}

type c01Worker struct {
	num    int
	world  *c01World
	w      *workers.Worker
	clk    *c01Clock
	opID   string
	srID   string
	killed atomic.Bool
	cancel context.CancelFunc
	// guarded by world.mu
	opIdx int
	srIdx int
	dep   int // deployment number of the last Deploy request this worker's operator completed
	// number of Deploy requests this worker's operator has completed: more than one = the process was alive
	// when it was deployed again
	deploys   int
	srDeploys int // the same for the worker's source runner
}

type c01World struct {
	mu  sync.Mutex
	ev  []string
	cfg struct{ n, kgc, nsplits, batch, readBatch, nkeys, rot int }

	splits  [][]int // key id of every record made available so far
	cur     []int   // cursor of the current deployment's reader per split
	dir     string
	loc     *c01Loc
	job     *jobs.Job
	jobGen  int
	jobDown bool
	jclk    *c01Clock
	errCh   chan error
	workers []*c01Worker
	byID    map[string]*c01Worker

	dep        int // number of R events so far (current deployment number)
	opIDs      []string
	srIDs      []string
	deployCk   string
	readDep    int
	delivDep   int
	jobRestart bool
	failDeploy int // >0: the failDeploy-th Deploy call from now fails
	pauseReads bool
	// deploy gate: operator Deploy requests park after the operator has loaded its state, until released
	deployGate   bool
	deployParked int
	deployGo     chan struct{}
	// a publication that completes while a deployment is in progress is logged after the deployment's R token:
	// the deployment chose its checkpoint (job.start reads CurrentCheckpoint once, up front) before it
	deferPub []string
	// per deployment: last index of each split handled by each operator (channels are FIFO)
	lastIdx   map[[2]int]int
	reordered string
	full      []string // every event of the case, for the corpus when a reordering is seen

	acks     []*c01Ack
	writes   []*c01Write
	tickSeen map[uint64]bool
	notes    map[string]int
	lastErr  map[string]string // last error an operator answered to a sender (runner id)
	closing  chan struct{}
	runningC chan struct{}
}

func (w *c01World) log(format string, a ...any) {
	t := fmt.Sprintf(format, a...)
	w.ev = append(w.ev, t)
	w.full = append(w.full, t)
}

func (w *c01World) take() string {
	w.mu.Lock()
	defer w.mu.Unlock()
	if len(w.ev) == 0 {
		return "-"
	}
	s := strings.Join(w.ev, " ")
	w.ev = nil
	return s
}

func c01KeyBytes(k int) []byte { return []byte("k" + strconv.Itoa(k)) }

func c01KeyID(b []byte) int {
	n, err := strconv.Atoi(strings.TrimPrefix(string(b), "k"))
	if err != nil {
		return -1
	}
	return n
}

type c01Discard struct{}

func (c01Discard) Write(p []byte) (int, error) { return len(p), nil }

// ---------------------------------------------------------------- scripted source connector

type c01Source struct{ w *c01World }

func (s c01Source) Validate() error { return nil }
func (s c01Source) NewSourceSplitter(ids []string, hooks connectors.SourceSplitterHooks, errChan chan<- error) connectors.SourceSplitter {
	s.w.mu.Lock()
	s.w.srIDs = append([]string(nil), ids...)
	for i, id := range ids {
		if wk := s.w.byID[id]; wk != nil {
			wk.srIdx = i
		}
	}
	s.w.mu.Unlock()
	return &c01Splitter{w: s.w, ids: ids, hooks: hooks}
}
func (s c01Source) NewSourceReader(hooks connectors.SourceReaderHooks) connectors.SourceReader {
	panic("the harness supplies the reader through the source reader factory")
}
func (s c01Source) ProtoMessage() *jobconfigpb.Source { return &jobconfigpb.Source{} }

type c01Splitter struct {
	connectors.UnimplementedSourceSplitter
	w     *c01World
	ids   []string
	hooks connectors.SourceSplitterHooks
}

func (s *c01Splitter) IsSourceSplitter() {}
func (s *c01Splitter) Close() error      { return nil }
func (s *c01Splitter) NotifySplitsFinished(id string, sp []string) {
}
func (s *c01Splitter) Checkpoint() []byte { return []byte("c01") }

func c01ParseSplitState(b []byte) (sp, cur int, ok bool) {
	parts := strings.Split(string(b), "=")
	if len(parts) != 2 {
		return 0, 0, false
	}
	sp, e1 := strconv.Atoi(parts[0])
	cur, e2 := strconv.Atoi(parts[1])
	return sp, cur, e1 == nil && e2 == nil
}

// Start runs after every node of the assembly has been deployed: the deployment is complete. The restored
// cursors are what the checkpoint hands to the splitter.
func (s *c01Splitter) Start(ckpt *snapshotpb.SourceCheckpoint) error {
	w := s.w
	w.mu.Lock()
	cursors := make([]int, w.cfg.nsplits)
	ck := "none"
	if ckpt != nil {
		ck = strconv.FormatUint(ckpt.CheckpointId, 10)
		for _, st := range ckpt.SplitStates {
			if sp, cur, ok := c01ParseSplitState(st); ok && sp < len(cursors) {
				cursors[sp] = cur
			}
		}
	}
	w.dep++
	w.readDep, w.delivDep = 0, 0
	copy(w.cur, cursors)
	cs := make([]string, len(cursors))
	for i, c := range cursors {
		cs[i] = strconv.Itoa(c)
	}
	kind := "w"
	if w.jobRestart {
		kind = "j"
		w.jobRestart = false
	}
	if w.deployCk != ck {
		w.log("!deploy-ck:%s", w.deployCk)
	}
	tag := "R"
	for _, id := range s.ids {
		if wk := w.byID[id]; wk != nil && (wk.deploys > 1 || wk.srDeploys > 1) {
			tag = "L" // the assembly contains a node process that had been deployed before (finding D39)
			if wk.deploys <= 1 {
				w.notes["source runner deployed twice, its operator once"]++
			}
		}
	}
	w.log("%s:%d:%s:%s:%s", tag, len(s.ids), ck, strings.Join(cs, "."), kind)
	for _, t := range w.deferPub {
		w.log("%s", t)
	}
	w.deferPub = nil
	w.lastIdx = map[[2]int]int{}
	n := len(s.ids)
	as := map[string][]*workerpb.SourceSplit{}
	for sp := 0; sp < w.cfg.nsplits; sp++ {
		cur := make([]byte, 8)
		binary.BigEndian.PutUint64(cur, uint64(cursors[sp]))
		id := s.ids[sp%n]
		as[id] = append(as[id], &workerpb.SourceSplit{SplitId: strconv.Itoa(sp), SourceId: "c01", Cursor: cur})
	}
	w.mu.Unlock()
	s.hooks.AssignSplits(as)
	return nil
}

// the reader of one runner in one deployment
type c01Reader struct {
	w      *c01World
	wk     *c01Worker
	dep    int
	splits []int
	cur    map[int]int
}

func (r *c01Reader) AssignSplits(splits []*workerpb.SourceSplit) error {
	r.w.mu.Lock()
	defer r.w.mu.Unlock()
	for _, sp := range splits {
		id, err := strconv.Atoi(sp.SplitId)
		if err != nil {
			return err
		}
		c := 0
		if len(sp.Cursor) == 8 {
			c = int(binary.BigEndian.Uint64(sp.Cursor))
		}
		r.splits = append(r.splits, id)
		r.cur[id] = c
	}
	return nil
}

func (r *c01Reader) live() bool { return !r.wk.killed.Load() && r.dep == r.w.dep }

func (r *c01Reader) ReadEvents() ([][]byte, error) {
	w := r.w
	w.mu.Lock()
	var out [][]byte
	if r.live() && !w.pauseReads {
		for _, sp := range r.splits {
			for n := 0; n < w.cfg.readBatch && r.cur[sp] < len(w.splits[sp]); n++ {
				i := r.cur[sp]
				k := w.splits[sp][i]
				w.log("r:%d:%d:%d", sp, i, k)
				out = append(out, []byte(fmt.Sprintf("%d:%d:%d", sp, i, k)))
				r.cur[sp] = i + 1
				w.cur[sp] = i + 1
				w.readDep++
			}
		}
	}
	w.mu.Unlock()
	if len(out) == 0 {
		time.Sleep(300 * time.Microsecond)
	}
	return out, nil
}

func (r *c01Reader) Checkpoint() [][]byte {
	r.w.mu.Lock()
	defer r.w.mu.Unlock()
	out := make([][]byte, 0, len(r.splits))
	for _, sp := range r.splits {
		out = append(out, []byte(fmt.Sprintf("%d=%d", sp, r.cur[sp])))
	}
	return out
}

// ---------------------------------------------------------------- reference handler (state = ghost log)

type c01Handler struct {
	w       *c01World
	wk      *c01Worker
	batches int
}

func (h *c01Handler) KeyEventBatch(ctx context.Context, events [][]byte) ([][]*handlerpb.KeyedEvent, error) {
	out := make([][]*handlerpb.KeyedEvent, len(events))
	for i, e := range events {
		parts := strings.Split(string(e), ":")
		k := 0
		if len(parts) == 3 {
			k, _ = strconv.Atoi(parts[2])
		}
		out[i] = []*handlerpb.KeyedEvent{{Key: c01KeyBytes(k), Value: e}}
	}
	return out, nil
}

const c01NS = "g"

func (h *c01Handler) ProcessEventBatch(ctx context.Context, req *handlerpb.ProcessEventBatchRequest) (*handlerpb.ProcessEventBatchResponse, error) {
	w := h.w
	w.mu.Lock()
	defer w.mu.Unlock()
	states := map[string][]string{}
	given := map[string]bool{}
	for _, ks := range req.KeyStates {
		var l []string
		for _, ns := range ks.StateEntryNamespaces {
			if ns.Namespace != c01NS {
				l = append(l, "?ns:"+ns.Namespace)
				continue
			}
			for pos, e := range ns.Entries {
				if len(e.Key) != 4 || int(binary.BigEndian.Uint32(e.Key)) != pos {
					l = append(l, "?pos")
				}
				l = append(l, string(e.Value))
			}
		}
		states[string(ks.Key)] = l
		given[string(ks.Key)] = true
	}
	muts := map[string][]*handlerpb.StateMutation{}
	var order []string
	zombie := h.wk.killed.Load()
	for _, ev := range req.Events {
		ke := ev.GetKeyedEvent()
		if ke == nil {
			continue
		}
		key := string(ke.Key)
		parts := strings.Split(string(ke.Value), ":")
		if len(parts) != 3 {
			w.log("!badevent")
			continue
		}
		st := "-"
		if !given[key] {
			st = "?nostate"
		} else if len(states[key]) > 0 {
			st = strings.Join(states[key], ",")
		}
		tok := fmt.Sprintf("d:%d:%s:%s:%d|%s", h.wk.opIdx, parts[0], parts[1], c01KeyID(ke.Key), st)
		if zombie {
			w.log("z%s", tok)
		} else {
			w.log("%s", tok)
			w.delivDep++
			sp, _ := strconv.Atoi(parts[0])
			idx, _ := strconv.Atoi(parts[1])
			k := [2]int{h.wk.opIdx, sp}
			if last, ok := w.lastIdx[k]; ok && idx < last && w.reordered == "" {
				w.reordered = tok
			}
			if last, ok := w.lastIdx[k]; !ok || idx > last {
				w.lastIdx[k] = idx
			}
		}
		pos := make([]byte, 4)
		binary.BigEndian.PutUint32(pos, uint32(len(states[key])))
		val := parts[0] + "." + parts[1]
		states[key] = append(states[key], val)
		if _, ok := muts[key]; !ok {
			order = append(order, key)
		}
		muts[key] = append(muts[key], &handlerpb.StateMutation{Mutation: &handlerpb.StateMutation_Put{
			Put: &handlerpb.PutMutation{Key: pos, Value: []byte(val)}}})
	}
	// optionally seal the memtable now and then, so that the state also lives in sstables (flush, compaction,
	// checkpoints referencing tables) and not only in the memtable and the WAL
	if w.cfg.rot > 0 && !zombie && len(order) > 0 {
		h.batches++
		// never the first batch: an empty memtable must not be sealed (the code only seals full ones)
		if h.batches > 1 && h.batches%w.cfg.rot == 0 {
			func() {
				defer func() { recover() }()
				h.wk.w.Operator.VerifDB().VerifRotate()
			}()
		}
	}
	resp := &handlerpb.ProcessEventBatchResponse{}
	for _, key := range order {
		resp.KeyResults = append(resp.KeyResults, &handlerpb.KeyResult{Key: []byte(key),
			StateMutationNamespaces: []*handlerpb.StateMutationNamespace{{Namespace: c01NS, Mutations: muts[key]}}})
	}
	return resp, nil
}

type c01Sink struct{}

func (c01Sink) Write([]byte) error { return nil }

// ---------------------------------------------------------------- adapters

// what a worker sees of the job
type c01JobClient struct {
	w  *c01World
	wk *c01Worker
}

func (j *c01JobClient) cur() (*jobs.Job, error) {
	j.w.mu.Lock()
	defer j.w.mu.Unlock()
	if j.wk.killed.Load() || j.w.jobDown || j.w.job == nil {
		return nil, errC01Unreachable
	}
	return j.w.job, nil
}

func (j *c01JobClient) RegisterOperator(ctx context.Context, id *jobpb.NodeIdentity) error {
	job, err := j.cur()
	if err != nil {
		return err
	}
	job.HandleRegisterOperator(id)
	return nil
}
func (j *c01JobClient) DeregisterOperator(ctx context.Context, id *jobpb.NodeIdentity) error {
	job, err := j.cur()
	if err != nil {
		return err
	}
	job.HandleDeregisterOperator(id)
	return nil
}
func (j *c01JobClient) RegisterSourceRunner(ctx context.Context, id *jobpb.NodeIdentity) error {
	job, err := j.cur()
	if err != nil {
		return err
	}
	job.HandleRegisterSourceRunner(id)
	return nil
}
func (j *c01JobClient) DeregisterSourceRunner(ctx context.Context, id *jobpb.NodeIdentity) error {
	job, err := j.cur()
	if err != nil {
		return err
	}
	job.HandleDeregisterSourceRunner(id)
	return nil
}
func (j *c01JobClient) NotifySplitsFinished(ctx context.Context, sourceRunnerID string, splitIDs []string) error {
	return nil
}

func (j *c01JobClient) OperatorCheckpointComplete(ctx context.Context, req *snapshotpb.OperatorCheckpoint) error {
	return j.w.gateAck(&c01Ack{kind: 'o', wk: j.wk, id: req.CheckpointId,
		call: func(job *jobs.Job) error { return job.HandleOperatorCheckpointComplete(ctx, req) }})
}

func (j *c01JobClient) OnSourceRunnerCheckpointComplete(ctx context.Context, req *jobpb.SourceRunnerCheckpointCompleteRequest) error {
	var cs []string
	for _, st := range req.SplitStates {
		cs = append(cs, string(st))
	}
	sort.Strings(cs)
	extra := "-"
	if len(cs) > 0 {
		extra = strings.Join(cs, ",")
	}
	return j.w.gateAck(&c01Ack{kind: 'r', wk: j.wk, id: req.CheckpointId, extra: extra,
		call: func(job *jobs.Job) error { return job.HandleSourceRunnerCheckpointComplete(ctx, req) }})
}

// gateAck parks an acknowledgement until the schedule releases it, then performs it against the job
func (w *c01World) gateAck(a *c01Ack) error {
	a.release = make(chan bool, 1)
	a.done = make(chan struct{})
	w.mu.Lock()
	if a.wk.killed.Load() || w.jobDown { // the process is dead (or its job is): the call is never made
		w.mu.Unlock()
		close(a.done)
		return errC01Unreachable
	}
	a.dep = a.wk.dep
	w.acks = append(w.acks, a)
	w.mu.Unlock()
	defer close(a.done)
	select {
	case ok := <-a.release:
		if !ok {
			return errC01Unreachable
		}
	case <-w.closing:
		return errC01Unreachable
	}
	w.mu.Lock()
	if os.Getenv("C01_DEBUG") != "" {
		fmt.Fprintf(os.Stderr, "gateAck released kind=%c worker=%d id=%d a.dep=%d w.dep=%d killed=%v jobDown=%v\n", a.kind, a.wk.num, a.id, a.dep, w.dep, a.wk.killed.Load(), w.jobDown)
	}
	if a.wk.killed.Load() || w.jobDown {
		w.mu.Unlock()
		return errC01Unreachable
	}
	job := w.job
	idx := a.wk.opIdx
	if a.kind == 'r' {
		idx = a.wk.srIdx
	}
	stale := a.dep != w.dep
	if !stale {
		if a.kind == 'r' {
			w.log("b:%d:%d:%s", idx, a.id, a.extra)
		} else {
			w.log("c:%d:%d", idx, a.id)
		}
	}
	w.mu.Unlock()
	err := func() (err error) {
		defer func() {
			if p := recover(); p != nil {
				err = fmt.Errorf("panic: %v", p)
			}
		}()
		return a.call(job)
	}()
	w.mu.Lock()
	switch {
	case stale && err == nil:
		w.log("sa:%c:%d:%d", a.kind, idx, a.id) // an acknowledgement of a previous deployment was accepted
	case stale:
		w.log("zack:%c:%d", a.kind, a.id)
	case err != nil:
		w.log("!ackerr:%c:%d:%d", a.kind, idx, a.id)
	}
	w.mu.Unlock()
	return err
}

// a node's handle on an operator process
type c01OpClient struct {
	w      *c01World
	target *c01Worker
	sender string
}

func (o *c01OpClient) ID() string   { return o.target.opID }
func (o *c01OpClient) Host() string { return "h" }
func (o *c01OpClient) senderDead() bool {
	o.w.mu.Lock()
	s := o.w.byID[o.sender]
	o.w.mu.Unlock()
	return s != nil && s.killed.Load()
}
func (o *c01OpClient) HandleEventBatch(ctx context.Context, batch []*workerpb.Event) error {
	for _, e := range batch {
		if o.target.killed.Load() || o.senderDead() {
			o.w.mu.Lock()
			o.w.lastErr[o.sender] = "unreachable operator " + o.target.opID
			o.w.mu.Unlock()
			return errC01Unreachable
		}
		if err := o.target.w.Operator.HandleEvent(ctx, o.sender, e); err != nil {
			if !o.target.killed.Load() {
				msg := err.Error()
				if len(msg) > 60 {
					msg = msg[:60]
				}
				o.w.mu.Lock()
				o.w.notes["HandleEvent error: "+msg]++
				o.w.lastErr[o.sender] = err.Error()
				o.w.mu.Unlock()
				if os.Getenv("C01_DEBUG") != "" {
					fmt.Fprintf(os.Stderr, "HandleEvent %s -> %s: %v\n", o.sender, o.target.opID, err)
				}
			}
			return err
		}
	}
	return nil
}
func (o *c01OpClient) Deploy(ctx context.Context, req *workerpb.DeployOperatorRequest) error {
	w := o.w
	if o.target.killed.Load() {
		return errC01Unreachable
	}
	w.mu.Lock()
	if w.failDeploy > 0 {
		w.failDeploy--
		if w.failDeploy == 0 {
			w.mu.Unlock()
			return errC01Unreachable
		}
	}
	ids := make([]string, len(req.Operators))
	for i, n := range req.Operators {
		ids[i] = n.Id
	}
	w.opIDs = ids
	cks := map[uint64]bool{}
	for _, c := range req.Checkpoints {
		cks[c.CheckpointId] = true
	}
	w.mu.Unlock()
	err := func() (err error) {
		defer func() {
			if p := recover(); p != nil {
				err = fmt.Errorf("panic: %v", p)
				w.mu.Lock()
				w.log("!deploy-panic:%s", strings.ReplaceAll(fmt.Sprint(p), " ", "_"))
				w.mu.Unlock()
			}
		}()
		return o.target.w.Operator.HandleDeploy(ctx, req, c01Sink{})
	}()
	w.mu.Lock()
	if err == nil {
		o.target.dep = w.dep + 1
		o.target.deploys++
		o.target.opIdx = -1
		for i, id := range ids {
			if id == o.target.opID {
				o.target.opIdx = i
			}
		}
		ck := "none"
		if len(cks) == 1 {
			for id := range cks {
				ck = strconv.FormatUint(id, 10)
			}
		} else if len(cks) > 1 {
			ck = "mixed"
		}
		w.deployCk = ck
	}
	var wait chan struct{}
	if err == nil && w.deployGate {
		w.deployParked++
		wait = w.deployGo
	}
	w.mu.Unlock()
	if wait != nil {
		select {
		case <-wait:
		case <-w.closing:
		case <-time.After(4 * c01Grace):
		}
	}
	return err
}
func (o *c01OpClient) UpdateRetainedCheckpoints(ctx context.Context, ids []uint64) (err error) {
	if o.target.killed.Load() {
		return errC01Unreachable
	}
	// over RPC a panic of the handler is recovered by the server and the caller sees an error
	defer func() {
		if p := recover(); p != nil {
			msg := fmt.Sprint(p)
			o.w.mu.Lock()
			if !o.target.w.Operator.VerifReady() {
				// the job sends the retention update to its newest assembly, whose operators may not be deployed yet:
				// HandleRemoveCheckpoints dereferences the nil database (finding D59; harmless for the keyed state:
				// over RPC the server recovers the panic and the job ignores the error)
				o.w.notes["D59: retention update reached an operator that is not deployed (nil database)"]++
			} else if strings.Contains(msg, "db missing the job's retained checkpoints") {
				// the database's deliberate rejection of a retention request that names only checkpoints it never
				// had (the job announces a checkpoint of the previous deployment to the operators of the new one)
				o.w.notes["retention request rejected: operator never had the announced checkpoint"]++
			} else {
				if len(msg) > 80 {
					msg = msg[:80]
				}
				o.w.log("!panic:UpdateRetainedCheckpoints:%s", strings.ReplaceAll(msg, " ", "_"))
			}
			o.w.mu.Unlock()
			err = fmt.Errorf("panic: %v", p)
		}
	}()
	return o.target.w.Operator.HandleRemoveCheckpoints(ctx, &workerpb.UpdateRetainedCheckpointsRequest{CheckpointIds: ids})
}
func (o *c01OpClient) NeedsTable(ctx context.Context, fileURI string) (bool, error) {
	if o.target.killed.Load() {
		return false, errC01Unreachable
	}
	return o.target.w.Operator.HandleNeedsTable(fileURI), nil
}

// the job's handle on a source runner process
type c01SrClient struct {
	w      *c01World
	target *c01Worker
}

func (s *c01SrClient) ID() string   { return s.target.srID }
func (s *c01SrClient) Host() string { return "h" }
func (s *c01SrClient) Deploy(ctx context.Context, req *workerpb.DeploySourceRunnerRequest) error {
	if s.target.killed.Load() {
		return errC01Unreachable
	}
	err := s.target.w.SourceRunner.HandleDeploy(ctx, req)
	if err == nil {
		s.w.mu.Lock()
		s.target.srDeploys++
		s.w.mu.Unlock()
	}
	return err
}
func (s *c01SrClient) AssignSplits(ctx context.Context, splits []*workerpb.SourceSplit) error {
	if s.target.killed.Load() {
		return errC01Unreachable
	}
	return s.target.w.SourceRunner.HandleAssignSplits(splits)
}
func (s *c01SrClient) StartCheckpoint(ctx context.Context, id uint64) error {
	w := s.w
	w.mu.Lock()
	if !w.tickSeen[id] {
		w.tickSeen[id] = true
		w.log("t:%d", id)
	}
	w.mu.Unlock()
	if s.target.killed.Load() {
		return errC01Unreachable
	}
	done := make(chan struct{})
	go func() {
		defer func() { recover() }()
		s.target.w.SourceRunner.HandleStartCheckpoint(ctx, id)
		close(done)
	}()
	select {
	case <-done:
		return nil
	case <-time.After(c01Grace):
		return fmt.Errorf("harness: runner does not take the barrier request")
	}
}

// ---------------------------------------------------------------- construction

func (w *c01World) opFactory(senderID string, node *jobpb.NodeIdentity) proto.Operator {
	w.mu.Lock()
	t := w.byID[node.Id]
	w.mu.Unlock()
	if t == nil {
		panic("c01: unknown operator " + node.Id)
	}
	return &c01OpClient{w: w, target: t, sender: senderID}
}

func (w *c01World) newJob(n int) error {
	w.mu.Lock()
	w.jobGen++
	gen := w.jobGen
	w.mu.Unlock()
	clk := newC01Clock()
	quiet := slog.New(slog.NewTextHandler(c01Discard{}, nil))
	job, err := jobs.New(&jobs.NewParams{
		JobConfig: &config.Config{WorkerCount: n, KeyGroupCount: w.cfg.kgc, WorkingStorageLocation: w.dir,
			Sources: []connectors.SourceConfig{c01Source{w}}},
		Clock:             clk,
		HeartbeatDeadline: c01Heartbeat * time.Second,
		Store:             &c01Loc{w: w, gen: gen, mu: w.loc.mu, loc: w.loc.loc},
		Logger:            quiet,
		OperatorFactory:   w.opFactory,
		SourceRunnerFactory: func(node *jobpb.NodeIdentity) proto.SourceRunner {
			w.mu.Lock()
			t := w.byID[node.Id]
			w.mu.Unlock()
			if t == nil {
				panic("c01: unknown source runner " + node.Id)
			}
			return &c01SrClient{w: w, target: t}
		},
		ErrChan: w.errCh,
	})
	if err != nil {
		return err
	}
	w.mu.Lock()
	w.tickSeen = map[uint64]bool{} // a new job process may use the ids of unpublished checkpoints again
	w.job, w.jclk, w.jobDown = job, clk, false
	w.cfg.n = n
	w.mu.Unlock()
	return nil
}

func (w *c01World) newWorker() *c01Worker {
	w.mu.Lock()
	num := len(w.workers)
	wk := &c01Worker{num: num, world: w, clk: newC01Clock(), opIdx: -1, srIdx: -1,
		opID: fmt.Sprintf("w%03d-op", num), srID: fmt.Sprintf("w%03d-sr", num)}
	w.workers = append(w.workers, wk)
	w.byID[wk.opID] = wk
	w.byID[wk.srID] = wk
	w.mu.Unlock()
	h := &c01Handler{w: w, wk: wk}
	wk.w = workers.VerifNewC01(workers.NewParams{
		Host:            "h",
		Handler:         h,
		Job:             &c01JobClient{w: w, wk: wk},
		Clock:           wk.clk,
		OperatorFactory: w.opFactory,
		EventBatching:   batching.EventBatcherParams{MaxDelay: time.Millisecond, MaxSize: w.cfg.batch},
	}, wk.opID, wk.srID, func(*jobconfigpb.Source) connectors.SourceReader {
		w.mu.Lock()
		defer w.mu.Unlock()
		return &c01Reader{w: w, wk: wk, dep: w.dep + 1, cur: map[int]int{}}
	})
	wk.w.Operator.Logger = slog.New(slog.NewTextHandler(c01Discard{}, nil))
	wk.w.SourceRunner.Logger = slog.New(slog.NewTextHandler(c01Discard{}, nil))
	ctx, cancel := context.WithCancel(context.Background())
	wk.cancel = cancel
	go func() {
		func() {
			defer func() {
				if p := recover(); p != nil { // a panic of the worker process is an output, not a quiet stop
					msg := fmt.Sprint(p)
					if len(msg) > 80 {
						msg = msg[:80]
					}
					w.mu.Lock()
					w.log("!worker-panic:%d:%s", wk.num, strings.ReplaceAll(msg, " ", "_"))
					w.mu.Unlock()
				}
			}()
			wk.w.Start(ctx)
		}()
		// the worker process ended. If nobody halted it, it stopped itself (fail-fast: its source runner got an
		// error from an unreachable operator, which cancels the whole worker): from now on it is as dead as a
		// halted one.
		w.mu.Lock()
		if !wk.killed.Load() {
			wk.killed.Store(true)
			// Why did it stop? Explained: another member of its deployment is dead (its runner met an unreachable
			// operator), the job is down, or the cluster is being torn down. `xr`: nobody was dead, but its runner was
			// answered "operator not ready" - the runner's watermark ticker starts at its own Deploy and can reach an
			// operator that is still loading (a start-up race of the code, counted). `xu`: anything else - reported.
			explained := w.jobDown
			select {
			case <-w.closing:
				explained = true
			default:
			}
			for _, o := range w.workers {
				if o != wk && o.killed.Load() && o.dep == wk.dep {
					explained = true
				}
			}
			cause := w.lastErr[wk.srID]
			switch {
			case explained || strings.Contains(cause, "unreachable"): // its runner met a dead operator
				w.log("x:%d", wk.num)
			case strings.Contains(cause, "not ready"):
				w.log("xr:%d", wk.num)
				w.notes["self-stop in a healthy deployment: runner was answered 'operator not ready' (start-up race)"]++
			case strings.Contains(cause, "abandoned by a new deployment") || wk.deploys > 1 || wk.srDeploys > 1:
				w.log("x:%d", wk.num) // a process that was redeployed live (D39 situation)
			default:
				if cause == "" {
					cause = "no-error-seen"
				}
				if len(cause) > 60 {
					cause = cause[:60]
				}
				w.log("xu:%d:%s", wk.num, strings.ReplaceAll(cause, " ", "_"))
			}
			w.dropAcksLocked(wk)
		}
		w.mu.Unlock()
	}()
	return wk
}

func (w *c01World) liveWorkers() []*c01Worker {
	w.mu.Lock()
	defer w.mu.Unlock()
	var out []*c01Worker
	for _, wk := range w.workers {
		if !wk.killed.Load() {
			out = append(out, wk)
		}
	}
	return out
}

func (w *c01World) syncJob() bool {
	w.mu.Lock()
	job := w.job
	w.mu.Unlock()
	done := make(chan struct{})
	go func() {
		defer func() { recover() }()
		job.VerifSyncC15()
		close(done)
	}()
	select {
	case <-done:
		return true
	case <-time.After(c01Grace):
		return false
	}
}

// waitRunning waits until the job reports Running after deployment number `after` has completed
func (w *c01World) waitRunning(after int) bool {
	deadline := time.Now().Add(2 * c01Grace)
	nudge := time.Now().Add(time.Second)
	for time.Now().Before(deadline) {
		if time.Now().After(nudge) {
			// what keeps happening in a real installation: workers that stopped are started again by their supervisor
			// and every live node's register poll fires again
			nudge = time.Now().Add(time.Second)
			w.mu.Lock()
			need := w.cfg.n
			for _, wk := range w.workers {
				if !wk.killed.Load() {
					need--
				}
			}
			w.mu.Unlock()
			for ; need > 0; need-- {
				w.newWorker()
			}
			w.heartbeat()
		}
		w.mu.Lock()
		dep := w.dep
		job := w.job
		w.mu.Unlock()
		if dep > after {
			if !w.syncJob() {
				return false
			}
			if job.VerifStatusC15() == "Running" {
				return true
			}
		}
		time.Sleep(300 * time.Microsecond)
	}
	return false
}

// heartbeat lets every live worker register again (its register poll fires)
func (w *c01World) heartbeat() {
	for _, wk := range w.liveWorkers() {
		done := make(chan struct{})
		go func() {
			defer func() { recover() }()
			wk.clk.fire("register", false)
			close(done)
		}()
		select {
		case <-done:
		case <-time.After(c01Grace):
		}
	}
}

var c01Sweep sync.Once

func newC01World(n, kgc, nsplits, batch, readBatch, nkeys, rot int) (*c01World, error) {
	slog.SetDefault(slog.New(slog.NewTextHandler(c01Discard{}, nil)))
	c01Sweep.Do(func() { // working directories left by processes that ended more than two minutes ago
		if ents, err := os.ReadDir(os.TempDir()); err == nil {
			for _, e := range ents {
				if info, err := e.Info(); err == nil && strings.HasPrefix(e.Name(), "verif-c01-") && time.Since(info.ModTime()) > 2*time.Minute {
					os.RemoveAll(os.TempDir() + "/" + e.Name())
				}
			}
		}
	})
	dir, err := os.MkdirTemp("", "verif-c01-")
	if err != nil {
		return nil, err
	}
	mem, err := locations.NewS3Location(objstore.NewMemoryS3Service(), "s3://bucket/job")
	if err != nil {
		return nil, err
	}
	w := &c01World{dir: dir, byID: map[string]*c01Worker{}, tickSeen: map[uint64]bool{}, notes: map[string]int{}, lastErr: map[string]string{}, lastIdx: map[[2]int]int{},
		closing: make(chan struct{}), errCh: make(chan error, 64)}
	w.cfg.kgc, w.cfg.nsplits, w.cfg.batch, w.cfg.readBatch, w.cfg.nkeys, w.cfg.rot = kgc, nsplits, batch, readBatch, nkeys, rot
	w.splits = make([][]int, nsplits)
	w.cur = make([]int, nsplits)
	w.loc = &c01Loc{w: w, mu: &sync.Mutex{}, loc: mem}
	go func() {
		for {
			select {
			case <-w.errCh:
			case <-w.closing:
				return
			}
		}
	}()
	if err := w.newJob(n); err != nil {
		return nil, err
	}
	return w, nil
}

// finished clusters stay reachable until the process ends: a halted operator may still be finishing an event or a
// background task, and once its database objects are garbage collected their cleanups delete table files under it
var (
	c01RetiredMu sync.Mutex
	c01Retired   []*c01World
)

func (w *c01World) close() {
	c01RetiredMu.Lock()
	c01Retired = append(c01Retired, w)
	c01RetiredMu.Unlock()
	w.mu.Lock()
	w.jobDown = true
	ws := append([]*c01Worker(nil), w.workers...)
	w.mu.Unlock()
	close(w.closing)
	for _, wk := range ws {
		if !wk.killed.Swap(true) {
			func() {
				defer func() { recover() }()
				wk.w.Halt()
			}()
		}
		wk.cancel()
	}
	// The directory is not removed now: background DKV tasks of the halted operators (flush, compaction) may
	// still write into it and panic when it is gone. Directories of earlier processes are removed at start-up.
}
