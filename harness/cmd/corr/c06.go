package main

import (
	"context"
	"encoding/json"
	"fmt"
	"io"
	"log/slog"
	"os"
	"runtime"
	"slices"
	"strconv"
	"strings"
	"sync"
	"time"

	"google.golang.org/protobuf/types/known/timestamppb"
	"reduction.dev/reduction-protocol/handlerpb"
	"reduction.dev/reduction/batching"
	"reduction.dev/reduction/config"
	"reduction.dev/reduction/connectors"
	"reduction.dev/reduction/connectors/embedded"
	"reduction.dev/reduction/dkv"
	"reduction.dev/reduction/dkv/kv"
	"reduction.dev/reduction/dkv/recovery"
	"reduction.dev/reduction/dkv/sst"
	"reduction.dev/reduction/dkv/storage"
	"reduction.dev/reduction/dkv/wal"
	"reduction.dev/reduction/jobs"
	"reduction.dev/reduction/partitioning"
	"reduction.dev/reduction/proto"
	"reduction.dev/reduction/proto/jobpb"
	"reduction.dev/reduction/proto/snapshotpb"
	"reduction.dev/reduction/proto/workerpb"
	"reduction.dev/reduction/storage/locations"
	"reduction.dev/reduction/storage/snapshots"
	"reduction.dev/reduction/workers/operator"
	"verif/harness/lib"
)

func init() { register("C06", propC06) }

// ---- real-code side ----

// c06Own is the operator's ownership test (real OperatorPartition.OwnsKey). Table files are never deleted by the
// harness instances: which instance may delete a shared table is C09's subject, and a collected table object must
// not remove a file another instance of the same case still reads.
type c06Own struct{ p *operator.OperatorPartition }

func (o c06Own) OwnsKey(k []byte) bool { return o.p.OwnsKey(k) }
func (o c06Own) ExclusivelyOwnsTable(string, []byte, []byte) (bool, error) {
	return false, nil
}

type c06Inst struct {
	db     *dkv.DB
	own    c06Own
	rg     partitioning.KeyGroupRange
	dirty  bool                              // written since the last forced rotation (an empty memtable is never rotated by the code itself)
	loaded map[string]bool                   // files of the tables the instance was opened with
	states map[int]*operator.KeyedStateStore // by key-group count (as Operator.HandleDeploy builds them)
	timers map[int]*operator.TimerStore
}

// the operator's own stores over the instance's database, built as HandleDeploy does
func (in *c06Inst) stateStore(kgc int) *operator.KeyedStateStore {
	if in.states[kgc] == nil {
		in.states[kgc] = operator.NewKeyedStateStore(in.db, partitioning.NewKeySpace(kgc, 1))
	}
	return in.states[kgc]
}

// a fresh TimerStore per use: its cache is loaded from the database once, and in cluster mode the operator's own timer
// registry writes timers too
func (in *c06Inst) timerStore(kgc int) *operator.TimerStore {
	return operator.NewTimerStore(in.db, partitioning.NewKeySpace(kgc, 1), in.rg, 1<<30)
}

// routed reports whether the router would deliver the subject key to this operator (its key group is in its range)
func (in *c06Inst) routed(kgc int, subj []byte) bool {
	return in.own.OwnsKey(in.stateStore(kgc).VerifEncodeSubjectKey(subj))
}

type c06World struct {
	root    *storage.MemoryFilesystem
	dir     string
	insts   map[int]*c06Inst
	handles map[string]recovery.CheckpointHandle
	dumps   map[string]string // the document behind a handle as it was when the checkpoint was taken
	keep    []any             // everything that must stay reachable until the case ends (table cleanups delete files)

	// cluster mode: real operators on a local directory (operators of a memory:// location do not share files)
	tmp     string
	lfs     storage.FileSystem
	ops     map[int]*operator.Operator
	names   map[int]string
	acks    map[string]*snapshotpb.OperatorCheckpoint
	job     *c06Job
	cancels []context.CancelFunc
	store   *snapshots.Store // the job's real snapshot store: assembles the JobCheckpoint from the operators' acks
	gen     []int            // instance ids of the operators deployed last
	begun   map[uint64]bool  // checkpoints created in the store
	hand    *c06Handler
}

// c06Splitter: the store asks the source splitter for its checkpoint when a snapshot completes
type c06Splitter struct {
	connectors.UnimplementedSourceSplitter
}

func (*c06Splitter) Checkpoint() []byte { return nil }

// c06FakeSR is the one source runner of the assembly (the operators only accept events from deployed runner ids)
type c06FakeSR struct {
	proto.UnimplementedSourceRunner
}

func (*c06FakeSR) ID() string   { return "sr0" }
func (*c06FakeSR) Host() string { return "h" }
func (*c06FakeSR) Deploy(context.Context, *workerpb.DeploySourceRunnerRequest) error {
	return nil
}

// c06Handler is the user handler of every real operator: it records the key state it is handed (what the operator's own
// KeyedStateStore.GetState returned) and the timers that fire, and answers with the mutation / timer the event carries
// (`p:ns:data:val`, `d:ns:data`, `t:nanos`, hex fields).
type c06Handler struct {
	mu    sync.Mutex
	given []string
	fired []string
}

func (h *c06Handler) KeyEventBatch(ctx context.Context, events [][]byte) ([][]*handlerpb.KeyedEvent, error) {
	panic("unused by operators")
}

func (h *c06Handler) ProcessEventBatch(ctx context.Context, req *handlerpb.ProcessEventBatchRequest) (*handlerpb.ProcessEventBatchResponse, error) {
	h.mu.Lock()
	defer h.mu.Unlock()
	for _, ks := range req.KeyStates {
		var parts []string
		for _, ns := range ks.StateEntryNamespaces {
			for _, e := range ns.Entries {
				parts = append(parts, lib.Hex([]byte(ns.Namespace))+"/"+lib.Hex(e.Key)+"="+lib.Hex(e.Value))
			}
		}
		if len(parts) == 0 {
			h.given = append(h.given, "empty")
		} else {
			h.given = append(h.given, strings.Join(parts, ","))
		}
	}
	resp := &handlerpb.ProcessEventBatchResponse{}
	for _, ev := range req.Events {
		switch e := ev.Event.(type) {
		case *handlerpb.Event_TimerExpired:
			h.fired = append(h.fired, fmt.Sprintf("%d %s", uint64(e.TimerExpired.Timestamp.AsTime().UnixNano()), lib.Hex(e.TimerExpired.Key)))
		case *handlerpb.Event_KeyedEvent:
			f := strings.Split(string(e.KeyedEvent.Value), ":")
			kr := &handlerpb.KeyResult{Key: e.KeyedEvent.Key}
			switch f[0] {
			case "p":
				kr.StateMutationNamespaces = []*handlerpb.StateMutationNamespace{{Namespace: string(lib.UnHex(f[1])), Mutations: []*handlerpb.StateMutation{
					{Mutation: &handlerpb.StateMutation_Put{Put: &handlerpb.PutMutation{Key: lib.UnHex(f[2]), Value: lib.UnHex(f[3])}}}}}}
			case "d":
				kr.StateMutationNamespaces = []*handlerpb.StateMutationNamespace{{Namespace: string(lib.UnHex(f[1])), Mutations: []*handlerpb.StateMutation{
					{Mutation: &handlerpb.StateMutation_Delete{Delete: &handlerpb.DeleteMutation{Key: lib.UnHex(f[2])}}}}}}
			case "t":
				n, _ := strconv.ParseUint(f[1], 10, 64)
				kr.NewTimers = []*timestamppb.Timestamp{timestamppb.New(time.Unix(0, int64(n)))}
			}
			resp.KeyResults = append(resp.KeyResults, kr)
		}
	}
	return resp, nil
}

// c06Job records the operator checkpoints the real operators report (proto.Job)
type c06Job struct {
	proto.NoopJob
	mu    sync.Mutex
	acks  map[string]*snapshotpb.OperatorCheckpoint
	store *snapshots.Store
}

func (j *c06Job) OperatorCheckpointComplete(ctx context.Context, req *snapshotpb.OperatorCheckpoint) error {
	j.mu.Lock()
	j.acks[req.OperatorId] = req
	store := j.store
	j.mu.Unlock()
	if store != nil { // what jobs.Job.HandleOperatorCheckpoint does with the acknowledgement
		return store.AddOperatorSnapshot(req)
	}
	return nil
}

// c06Neighbor answers the table-cleanup question of a real OperatorPartition: every neighbour still needs every table,
// so no shared file is deleted while a case runs (which instance may delete a table is C09's subject)
type c06Neighbor struct{ proto.UnimplementedOperator }

func (*c06Neighbor) NeedsTable(ctx context.Context, fileURI string) (bool, error) { return true, nil }

// c06RealOp adapts a real operator.Operator to proto.Operator the way the worker's RPC layer does: Deploy = HandleDeploy
type c06RealOp struct {
	proto.UnimplementedOperator
	id   string
	op   *operator.Operator
	mu   *sync.Mutex
	uris *[]string
}

func (o *c06RealOp) ID() string   { return o.id }
func (o *c06RealOp) Host() string { return "h" }
func (o *c06RealOp) Deploy(ctx context.Context, req *workerpb.DeployOperatorRequest) error {
	o.mu.Lock()
	for _, c := range req.Checkpoints {
		*o.uris = append(*o.uris, c.DkvFileUri)
	}
	o.mu.Unlock()
	return o.op.HandleDeploy(ctx, req, &embedded.RecordingSink{})
}

func (w *c06World) cluster() error {
	if w.tmp != "" {
		return nil
	}
	slog.SetDefault(slog.New(slog.NewTextHandler(io.Discard, nil))) // the operators log through the default logger
	tmp, err := os.MkdirTemp("", "verif-c06-")
	if err != nil {
		return err
	}
	w.tmp = tmp
	w.lfs = storage.NewLocalFilesystem(tmp)
	w.ops = map[int]*operator.Operator{}
	w.names = map[int]string{}
	w.acks = map[string]*snapshotpb.OperatorCheckpoint{}
	w.store = snapshots.NewStore(&snapshots.NewStoreParams{
		FileStore: locations.NewLocalDirectory(tmp + "/job"), SavepointsPath: "savepoints", CheckpointsPath: "checkpoints",
	})
	w.store.RegisterSourceSplitter(&c06Splitter{})
	w.begun = map[uint64]bool{}
	w.hand = &c06Handler{}
	w.job = &c06Job{acks: map[string]*snapshotpb.OperatorCheckpoint{}, store: w.store}
	return nil
}

func (w *c06World) newOperator(id int) (*operator.Operator, string) {
	name := fmt.Sprintf("%s-o%d", w.dir, id)
	op := operator.NewOperator(operator.NewOperatorParams{
		ID: name, Job: w.job, UserHandler: w.hand,
		EventBatching:           batching.EventBatcherParams{MaxSize: 1, MaxDelay: time.Hour},
		NeighborOperatorFactory: func(string, *jobpb.NodeIdentity) proto.Operator { return &c06Neighbor{} },
	})
	ctx, cancel := context.WithCancel(context.Background())
	w.cancels = append(w.cancels, cancel)
	go func() { op.Start(ctx) }()
	w.ops[id] = op
	w.names[id] = name
	w.keep = append(w.keep, op)
	return op, name
}

// adopt registers the database a real operator opened in HandleDeploy as instance `id`
func (w *c06World) adopt(id int, op *operator.Operator, cfg c07Cfg) string {
	db := op.VerifDB()
	if db == nil {
		return "no-db"
	}
	own, _, _, _ := op.VerifKeyLayout(nil)
	comp := db.VerifCompactor()
	comp.L0RunNumCompactionTrigger = cfg.l0
	comp.MaxSizeAmplificationPercent = cfg.maxAmp
	comp.SmallestLevelSize = int64(cfg.smallest)
	w.keep = append(w.keep, db)
	w.insts[id] = &c06Inst{db: db, own: c06Own{operator.VerifNewOperatorPartition(own)}, rg: own,
		states: map[int]*operator.KeyedStateStore{}, timers: map[int]*operator.TimerStore{}}
	deadline := time.Now().Add(3 * time.Second)
	for !op.VerifReady() && time.Now().Before(deadline) {
		time.Sleep(200 * time.Microsecond)
	}
	return fmt.Sprintf("%d,%d", own.Start, own.End)
}

var c06Seq int
var c06Mu sync.Mutex

func c06Ranges(s string) []partitioning.KeyGroupRange {
	var out []partitioning.KeyGroupRange
	if s == "-" || s == "" {
		return out
	}
	for _, it := range strings.Split(s, ";") {
		ab := strings.Split(it, ",")
		a, _ := strconv.Atoi(ab[0])
		b, _ := strconv.Atoi(ab[1])
		out = append(out, partitioning.KeyGroupRange{Start: a, End: b})
	}
	return out
}

func c06ShowAssign(a [][]int) string {
	if len(a) == 0 {
		return "none"
	}
	parts := make([]string, len(a))
	for i, l := range a {
		if len(l) == 0 {
			parts[i] = "-"
			continue
		}
		s := make([]string, len(l))
		for j, x := range l {
			s[j] = strconv.Itoa(x)
		}
		parts[i] = strings.Join(s, ",")
	}
	return strings.Join(parts, "|")
}

func c06Perm(s string) []int {
	var out []int
	for _, x := range strings.Split(s, ",") {
		v, _ := strconv.Atoi(x)
		out = append(out, v)
	}
	return out
}

// c06AssignCheck evaluates the statement of C06.assign_exact / assign_complete on the real AssignRanges.
func c06AssignCheck(kgc, m, n int, perm []int) string {
	to := partitioning.NewKeySpace(kgc, n).KeyGroupRanges()
	sorted := partitioning.NewKeySpace(kgc, m).KeyGroupRanges()
	from := make([]partitioning.KeyGroupRange, len(perm))
	for i, p := range perm {
		from[i] = sorted[p]
	}
	a := partitioning.AssignRanges(to, from)
	if len(a) != len(to) {
		return "length"
	}
	for i := range to {
		for j := range from {
			if slices.Contains(a[i], j) != to[i].Overlaps(from[j]) {
				return fmt.Sprintf("inexact to=%d from=%d", i, j)
			}
		}
		for _, j := range a[i] {
			if j < 0 || j >= len(from) {
				return fmt.Sprintf("index-out-of-range to=%d", i)
			}
		}
	}
	for g := 0; g < kgc; g++ {
		for i := range to {
			if !to[i].IncludesKeyGroup(partitioning.KeyGroup(g)) {
				continue
			}
			found := false
			for _, j := range a[i] {
				if from[j].IncludesKeyGroup(partitioning.KeyGroup(g)) {
					found = true
				}
			}
			if !found {
				return fmt.Sprintf("lost kg=%d to=%d", g, i)
			}
		}
	}
	return "ok"
}

type c06FakeOp struct {
	proto.UnimplementedOperator
	idx int
	mu  *sync.Mutex
	got [][]string
}

func (o *c06FakeOp) ID() string   { return fmt.Sprintf("op%d", o.idx) }
func (o *c06FakeOp) Host() string { return "h" }
func (o *c06FakeOp) Deploy(ctx context.Context, req *workerpb.DeployOperatorRequest) error {
	o.mu.Lock()
	defer o.mu.Unlock()
	for _, c := range req.Checkpoints {
		o.got[o.idx] = append(o.got[o.idx], c.DkvFileUri)
	}
	return nil
}

// c06Deploy runs the real jobs.Assembly.Deploy on a job checkpoint whose operator checkpoints are recorded in the
// given order and reports which recorded positions every new operator was handed.
func c06Deploy(kgc, n int, from []partitioning.KeyGroupRange) string {
	mu := &sync.Mutex{}
	got := make([][]string, n)
	ops := make([]proto.Operator, n)
	for i := range ops {
		ops[i] = &c06FakeOp{idx: i, mu: mu, got: got}
	}
	ck := &snapshotpb.JobCheckpoint{Id: 7}
	for j, r := range from {
		ck.OperatorCheckpoints = append(ck.OperatorCheckpoints, &snapshotpb.OperatorCheckpoint{
			CheckpointId: 7, OperatorId: fmt.Sprintf("old%d", j), DkvFileUri: strconv.Itoa(j),
			KeyGroupRange: &snapshotpb.KeyGroupRange{Start: int32(r.Start), End: int32(r.End)},
		})
	}
	done := make(chan error, 1)
	go func() {
		defer func() {
			if r := recover(); r != nil {
				done <- fmt.Errorf("panic %v", r)
			}
		}()
		done <- jobs.NewAssembly(ops, nil).Deploy(&config.Config{WorkerCount: n, KeyGroupCount: kgc, WorkingStorageLocation: "memory:///c06"}, ck)
	}()
	select {
	case err := <-done:
		if err != nil {
			return "err " + strings.ReplaceAll(err.Error(), " ", "_")
		}
	case <-time.After(10 * time.Second):
		return "timeout"
	}
	mu.Lock()
	defer mu.Unlock()
	a := make([][]int, n)
	for i := range got {
		for _, u := range got[i] {
			v, _ := strconv.Atoi(u)
			a[i] = append(a[i], v)
		}
	}
	return c06ShowAssign(a)
}

func (w *c06World) newDB(id int, lo, hi, mem, target int, cfg c07Cfg, handles []recovery.CheckpointHandle) *c06Inst {
	return w.newDBIn(id, id, lo, hi, mem, target, cfg, handles)
}

// newDBIn opens instance `id` in the directory of instance `dirOf` (an operator that keeps running across a rescale keeps
// its id and with it its directory: it restores INTO the directory that already holds its old table files)
func (w *c06World) newDBIn(id, dirOf int, lo, hi, mem, target int, cfg c07Cfg, handles []recovery.CheckpointHandle) *c06Inst {
	own := c06Own{operator.VerifNewOperatorPartition(partitioning.KeyGroupRange{Start: lo, End: hi})}
	fs := w.root.WithWorkingDir(fmt.Sprintf("%s/i%d", w.dir, dirOf))
	db := dkv.New(dkv.DBOptions{FileSystem: fs, MemTableSize: uint64(mem), TargetFileSize: uint64(target), L0TableNumCompactionTrigger: cfg.l0, DataOwnership: own,
		Logger: slog.New(slog.NewTextHandler(io.Discard, nil))})
	comp := db.VerifCompactor()
	comp.MaxSizeAmplificationPercent = cfg.maxAmp
	comp.SmallestLevelSize = int64(cfg.smallest)
	w.keep = append(w.keep, db)
	if err := db.Start(handles); err != nil {
		panic(err)
	}
	c06Wait(db)
	in := &c06Inst{db: db, own: own, rg: partitioning.KeyGroupRange{Start: lo, End: hi},
		states: map[int]*operator.KeyedStateStore{}, timers: map[int]*operator.TimerStore{}, loaded: map[string]bool{}}
	for _, lvl := range db.VerifLevels().VerifLayout() {
		for _, ti := range lvl {
			in.loaded[ti.URI] = true
		}
	}
	w.insts[id] = in
	return in
}

// c06Wait waits for the instance's background flush/compaction tasks. The task queues of package dkv are
// process-global: a goroutine of one instance's task group may run a function queued by another instance, and
// DB.WaitOnTasks of that other instance then races with the task's own Enqueue ("WaitGroup misuse" panic). The harness
// therefore lets at most one instance have background work at a time: every operation that can start a task (writes,
// the replay of an open) is followed by this wait. Foreground/background interleavings inside one instance are C07's
// subject.
func c06Wait(db *dkv.DB) bool {
	done := make(chan struct{})
	go func() {
		db.WaitOnTasks()
		close(done)
	}()
	select {
	case <-done:
		return true
	case <-time.After(10 * time.Second):
		return false
	}
}

type c06Doc struct {
	Checkpoints []struct {
		ID     uint64                `json:"id"`
		WALs   []wal.HandleDocument  `json:"wals"`
		Levels [][]sst.TableDocument `json:"levels"`
	} `json:"checkpoints"`
}

// c06DumpCkpt reads the checkpoint document behind a handle the way a restoring instance does: the tables of every
// level in document order with their entries and sequence numbers, and the WAL entries after `After`.
func (w *c06World) dumpCkpt(h recovery.CheckpointHandle) string {
	var fs storage.FileSystem = w.root
	if !strings.HasPrefix(h.URI, "memory://") && w.lfs != nil {
		fs = w.lfs
	}
	data, err := storage.ReadAll(fs.Open(h.URI))
	if err != nil {
		return "err read-doc"
	}
	var doc c06Doc
	if err := json.Unmarshal(data, &doc); err != nil {
		return "err parse-doc"
	}
	for _, c := range doc.Checkpoints {
		if c.ID != h.CheckpointID {
			continue
		}
		levels := make([]string, len(c.Levels))
		for i, l := range c.Levels {
			var ts []string
			for _, td := range l {
				t := sst.NewTableFromDocument(fs, c06Own{}, td)
				w.keep = append(w.keep, t)
				num := int64(-1)
				if i := strings.LastIndex(td.URI, "/"); i >= 0 {
					if n, ok := sst.TableFileID(td.URI[i+1:]); ok {
						num = n
					}
				}
				ts = append(ts, fmt.Sprintf("%d~%s", num, dumpTable(t))) // file number ~ entries
			}
			if len(ts) == 0 {
				levels[i] = "e"
			} else {
				levels[i] = strings.Join(ts, "|")
			}
		}
		var ws []string
		for _, hd := range c.WALs {
			for e, err := range wal.NewReader(fs, wal.NewHandle(fs, hd)).All() {
				if err != nil {
					return "err read-wal"
				}
				d := "0"
				if e.IsDelete() {
					d = "1"
				}
				ws = append(ws, fmt.Sprintf("%s:%s:%s", lib.Hex(e.Key()), d, lib.Hex(e.Value())))
			}
		}
		wl := "e"
		if len(ws) > 0 {
			wl = strings.Join(ws, ";")
		}
		return "ckpt " + strings.Join(levels, "/") + " " + wl
	}
	return "err no-checkpoint-in-doc"
}

// c06DocTriples splits a dumped checkpoint document into `key:del:value` triples of its tables and of its WAL
func c06DocTriples(dump string) (tables, walEntries []string) {
	f := strings.Fields(dump)
	if len(f) != 3 || f[0] != "ckpt" {
		return nil, nil
	}
	for _, lvl := range strings.Split(f[1], "/") {
		if lvl == "e" {
			continue
		}
		for _, t := range strings.Split(lvl, "|") {
			if i := strings.Index(t, "~"); i >= 0 {
				t = t[i+1:]
			}
			for _, e := range strings.Split(t, ";") {
				p := strings.Split(e, ":")
				if len(p) == 4 {
					tables = append(tables, p[0]+":"+p[2]+":"+p[3])
				}
			}
		}
	}
	if f[2] != "e" {
		walEntries = strings.Split(f[2], ";")
	}
	return tables, walEntries
}

// c06Send delivers an event from the deployed source runner through the real Operator.HandleEvent
func c06Send(op *operator.Operator, ev *workerpb.Event) string {
	done := make(chan error, 1)
	go func() { done <- op.HandleEvent(context.Background(), "sr0", ev) }()
	select {
	case err := <-done:
		if err != nil {
			return "err event " + strings.ReplaceAll(err.Error(), " ", "_")
		}
		return ""
	case <-time.After(10 * time.Second):
		return "timeout"
	}
}

func c06Scan(db *dkv.DB, prefix []byte, keep func([]byte) bool) string {
	var scanErr error
	var parts []string
	for e := range db.ScanPrefix(prefix, &scanErr) {
		if keep != nil && !keep(e.Key()) {
			continue
		}
		parts = append(parts, lib.Hex(e.Key())+":"+lib.Hex(e.Value()))
	}
	if scanErr != nil {
		return "err " + strings.ReplaceAll(scanErr.Error(), " ", "_")
	}
	if len(parts) == 0 {
		return "empty"
	}
	return strings.Join(parts, ",")
}

func runC06(c lib.Case) []string {
	c06Mu.Lock()
	defer c06Mu.Unlock()
	cfg := parseC07Header(c.Header)
	c06Seq++
	w := &c06World{root: storage.NewMemoryFilesystem(), dir: fmt.Sprintf("c06-%d", c06Seq), insts: map[int]*c06Inst{}, handles: map[string]recovery.CheckpointHandle{}, dumps: map[string]string{}}
	defer func() {
		for _, in := range w.insts {
			c06Wait(in.db)
		}
		for _, cancel := range w.cancels {
			cancel()
		}
		runtime.KeepAlive(w.keep)
		if w.tmp != "" {
			os.RemoveAll(w.tmp)
		}
	}()
	atoi := func(s string) int { v, _ := strconv.Atoi(s); return v }
	out := make([]string, 0, len(c.Ops))
	for _, op := range c.Ops {
		f := strings.Fields(op)
		var in *c06Inst
		switch f[0] {
		case "put", "del", "settle", "ckpt", "get", "scan", "scanown", "seq", "sput", "sdel", "sget", "tput", "tearliest", "leak", "rot", "cckpt", "hput", "hdel", "htimer", "hwm", "freshnames":
			in = w.insts[atoi(f[1])]
			if in == nil {
				out = append(out, "no-instance")
				continue
			}
		}
		switch f[0] {
		case "cnew": // cnew first kgc M: M real operators deployed together without checkpoints (Operator.HandleDeploy)
			if err := w.cluster(); err != nil {
				out = append(out, "err tmpdir")
				continue
			}
			first, kgc, m := atoi(f[1]), atoi(f[2]), atoi(f[3])
			ids := make([]*jobpb.NodeIdentity, m)
			opsNew := make([]*operator.Operator, m)
			for j := 0; j < m; j++ {
				op, name := w.newOperator(first + j)
				opsNew[j] = op
				ids[j] = &jobpb.NodeIdentity{Id: name, Host: "h"}
			}
			var parts []string
			for j, op := range opsNew {
				err := op.HandleDeploy(context.Background(), &workerpb.DeployOperatorRequest{
					Operators: ids, SourceRunnerIds: []string{"sr0"}, KeyGroupCount: int32(kgc), StorageLocation: w.tmp,
				}, &embedded.RecordingSink{})
				if err != nil {
					parts = append(parts, "deploy-error")
					continue
				}
				parts = append(parts, w.adopt(first+j, op, cfg))
			}
			w.gen = w.gen[:0]
			for j := 0; j < m; j++ {
				w.gen = append(w.gen, first+j)
			}
			out = append(out, strings.Join(parts, ";"))
		case "rot": // seal the active memtable and flush it (what a full memtable does), then let flush/compaction finish
			if in.dirty {
				in.db.VerifRotate()
				in.dirty = false
			}
			if !c06Wait(in.db) {
				out = append(out, "timeout")
				continue
			}
			out = append(out, "ok")
		case "cckpt": // cckpt id cid: a checkpoint barrier from the operator's only source runner -> DB.Checkpoint -> ack to the job
			op := w.ops[atoi(f[1])]
			if op == nil {
				out = append(out, "no-operator")
				continue
			}
			c06Wait(in.db)
			cid := uint64(atoi(f[2]))
			if !w.begun[cid] {
				// the job creates the checkpoint in its snapshot store, naming the operators and runners it expects
				names := make([]string, len(w.gen))
				for i, g := range w.gen {
					names[i] = w.names[g]
				}
				got, err := w.store.CreateCheckpoint(names, []string{"sr0"})
				if err != nil || got != cid {
					out = append(out, fmt.Sprintf("store-create id=%d err=%v", got, err != nil))
					continue
				}
				if err := w.store.AddSourceSnapshot(&jobpb.SourceRunnerCheckpointCompleteRequest{CheckpointId: cid, SourceRunnerId: "sr0"}); err != nil {
					out = append(out, "store-source-ack-error")
					continue
				}
				w.begun[cid] = true
			}
			done := make(chan error, 1)
			go func() {
				done <- op.HandleEvent(context.Background(), "sr0", &workerpb.Event{Event: &workerpb.Event_CheckpointBarrier{CheckpointBarrier: &workerpb.CheckpointBarrier{CheckpointId: cid}}})
			}()
			select {
			case err := <-done:
				if err != nil {
					out = append(out, "err barrier "+strings.ReplaceAll(err.Error(), " ", "_"))
					continue
				}
			case <-time.After(10 * time.Second):
				out = append(out, "timeout")
				continue
			}
			w.job.mu.Lock()
			ack := w.job.acks[w.names[atoi(f[1])]]
			w.job.mu.Unlock()
			if ack == nil || ack.CheckpointId != cid {
				out = append(out, "no-ack")
				continue
			}
			w.acks[f[1]+":"+f[2]] = ack
			h := recovery.CheckpointHandle{CheckpointID: cid, URI: ack.DkvFileUri}
			w.handles[f[1]+":"+f[2]] = h
			if int(ack.KeyGroupRange.Start) != in.rg.Start || int(ack.KeyGroupRange.End) != in.rg.End {
				out = append(out, "ack-range-mismatch")
				continue
			}
			w.dumps[f[1]+":"+f[2]] = w.dumpCkpt(h)
			out = append(out, w.dumps[f[1]+":"+f[2]])
		case "cdeploy": // cdeploy first kgc N cid acks: real Assembly.Deploy of N new real operators from the job checkpoint
			if err := w.cluster(); err != nil {
				out = append(out, "err tmpdir")
				continue
			}
			first, kgc, n, cid := atoi(f[1]), atoi(f[2]), atoi(f[3]), f[4]
			missing := false
			for _, ref := range strings.Split(f[5], ",") {
				if w.acks[ref+":"+cid] == nil {
					missing = true
				}
			}
			if missing {
				out = append(out, "no-ack")
				continue
			}
			// the job checkpoint as the real snapshot store assembled and published it from the operators' acknowledgements
			var jc *snapshotpb.JobCheckpoint
			deadline := time.Now().Add(5 * time.Second)
			for {
				jc = w.store.CurrentCheckpoint()
				if jc.GetId() == uint64(atoi(cid)) || time.Now().After(deadline) {
					break
				}
				time.Sleep(200 * time.Microsecond)
			}
			if jc.GetId() != uint64(atoi(cid)) {
				out = append(out, "store-not-published")
				continue
			}
			pos := map[string]int{}
			byURI := map[string]string{}
			for _, ref := range strings.Split(f[5], ",") {
				if ack := w.acks[ref+":"+cid]; ack != nil {
					byURI[ack.DkvFileUri] = ref
				}
			}
			var order []string
			for i, oc := range jc.OperatorCheckpoints {
				pos[oc.DkvFileUri] = i
				order = append(order, byURI[oc.DkvFileUri])
			}
			mu := &sync.Mutex{}
			uris := make([][]string, n)
			adapters := make([]proto.Operator, n)
			opsNew := make([]*operator.Operator, n)
			// f[6] (optional): for every new position the instance id of an operator of the previous generation that keeps
			// running and takes that position (same Operator object, same id, same directory), or "-" for a new operator
			var reuse []string
			if len(f) > 6 {
				reuse = strings.Split(f[6], ",")
			}
			for i := 0; i < n; i++ {
				if i < len(reuse) && reuse[i] != "-" {
					if old := w.ops[atoi(reuse[i])]; old != nil {
						opsNew[i] = old
						w.ops[first+i] = old
						w.names[first+i] = w.names[atoi(reuse[i])]
						adapters[i] = &c06RealOp{id: w.names[first+i], op: old, mu: mu, uris: &uris[i]}
						continue
					}
				}
				op, name := w.newOperator(first + i)
				opsNew[i] = op
				adapters[i] = &c06RealOp{id: name, op: op, mu: mu, uris: &uris[i]}
			}
			done := make(chan error, 1)
			go func() {
				defer func() {
					if r := recover(); r != nil {
						done <- fmt.Errorf("panic %v", r)
					}
				}()
				done <- jobs.NewAssembly(adapters, []proto.SourceRunner{&c06FakeSR{}}).Deploy(&config.Config{WorkerCount: n, KeyGroupCount: kgc, WorkingStorageLocation: w.tmp}, jc)
			}()
			select {
			case err := <-done:
				if err != nil {
					out = append(out, "err deploy "+strings.ReplaceAll(err.Error(), " ", "_"))
					continue
				}
			case <-time.After(20 * time.Second):
				out = append(out, "timeout")
				continue
			}
			a := make([][]int, n)
			bad := ""
			for i, op := range opsNew {
				for _, u := range uris[i] {
					a[i] = append(a[i], pos[u])
				}
				if r := w.adopt(first+i, op, cfg); r == "no-db" {
					bad = "no-db"
				}
			}
			if bad != "" {
				out = append(out, bad)
				continue
			}
			w.gen = w.gen[:0]
			for i := 0; i < n; i++ {
				w.gen = append(w.gen, first+i)
			}
			out = append(out, c06ShowAssign(a)+" order="+strings.Join(order, ","))
		case "assign":
			out = append(out, c06ShowAssign(partitioning.AssignRanges(c06Ranges(f[1]), c06Ranges(f[2]))))
		case "assigncheck":
			out = append(out, c06AssignCheck(atoi(f[1]), atoi(f[2]), atoi(f[3]), c06Perm(f[4])))
		case "deploy":
			out = append(out, c06Deploy(atoi(f[1]), atoi(f[2]), c06Ranges(f[3])))
		case "new":
			w.newDB(atoi(f[1]), atoi(f[2]), atoi(f[3]), atoi(f[4]), atoi(f[5]), cfg, nil)
			out = append(out, "ok")
		case "put":
			in.db.Put(lib.UnHex(f[2]), lib.UnHex(f[3]))
			in.dirty = true
			c06Wait(in.db)
			out = append(out, "ok")
		case "del":
			in.db.Delete(lib.UnHex(f[2]))
			in.dirty = true
			c06Wait(in.db)
			out = append(out, "ok")
		case "settle":
			if !c06Wait(in.db) {
				out = append(out, "timeout")
				continue
			}
			out = append(out, "ok")
		case "ckpt":
			if !c06Wait(in.db) {
				out = append(out, "timeout")
				continue
			}
			h, err := in.db.Checkpoint(uint64(atoi(f[2])))()
			if err != nil {
				out = append(out, "err checkpoint")
				continue
			}
			w.handles[f[1]+":"+f[2]] = h
			w.dumps[f[1]+":"+f[2]] = w.dumpCkpt(h)
			out = append(out, w.dumps[f[1]+":"+f[2]])
		case "open", "openin": // openin id lo hi mem target handles dirOf
			var hs []recovery.CheckpointHandle
			ok := true
			for _, ref := range strings.Split(f[6], ",") {
				h, found := w.handles[ref]
				ok = ok && found
				hs = append(hs, h)
			}
			if !ok {
				out = append(out, "no-handle")
				continue
			}
			if f[0] == "openin" {
				w.newDBIn(atoi(f[1]), atoi(f[7]), atoi(f[2]), atoi(f[3]), atoi(f[4]), atoi(f[5]), cfg, hs)
			} else {
				w.newDB(atoi(f[1]), atoi(f[2]), atoi(f[3]), atoi(f[4]), atoi(f[5]), cfg, hs)
			}
			out = append(out, "ok")
		case "freshnames": // the files of the live tables (and of the tables they were restored from) are pairwise distinct
			seenURI := map[string]bool{}
			res := ""
			first := int64(-1)
			for _, lvl := range in.db.VerifLevels().VerifLayout() {
				for _, ti := range lvl {
					if seenURI[ti.URI] {
						res = "reused " + ti.Name
					}
					seenURI[ti.URI] = true
					if !in.loaded[ti.URI] {
						if n, ok := sst.TableFileID(ti.Name); ok && (first < 0 || n < first) {
							first = n
						}
					}
				}
			}
			if res == "" {
				// the smallest file number among the tables written since the open (flushes, compactions)
				if first < 0 {
					res = "ok first=-"
				} else {
					res = fmt.Sprintf("ok first=%d", first)
				}
			}
			out = append(out, res)
		case "seq":
			out = append(out, fmt.Sprintf("seq=%d", in.db.VerifSeqNum()))
		case "leak": // leak id cid h1,h2: entries of the instance's NEXT checkpoint that it does not own and did not inherit in a source table
			if !c06Wait(in.db) {
				out = append(out, "timeout")
				continue
			}
			h, err := in.db.Checkpoint(uint64(atoi(f[2])))()
			if err != nil {
				out = append(out, "err checkpoint")
				continue
			}
			w.handles[f[1]+":"+f[2]] = h
			inherited := map[string]bool{}
			ok := true
			for _, ref := range strings.Split(f[3], ",") {
				dump, found := w.dumps[ref]
				if !found {
					ok = false
					break
				}
				// (the document as recorded at its checkpoint: an operator that keeps its directory rewrites the file later)
				tbl, _ := c06DocTriples(dump)
				for _, t := range tbl {
					inherited[t] = true
				}
			}
			if !ok {
				out = append(out, "no-handle")
				continue
			}
			tbl, wal := c06DocTriples(w.dumpCkpt(h))
			var extra []string
			seen := map[string]bool{}
			for _, t := range append(tbl, wal...) {
				k := lib.UnHex(strings.SplitN(t, ":", 2)[0])
				if !in.own.OwnsKey(k) && !inherited[t] && !seen[t] {
					seen[t] = true
					extra = append(extra, t)
				}
			}
			slices.Sort(extra)
			if len(extra) == 0 {
				out = append(out, "none")
			} else {
				out = append(out, strings.Join(extra, ","))
			}
		case "get":
			out = append(out, showEntry(in.db.Get(lib.UnHex(f[2]))))
		case "scan":
			out = append(out, c06Scan(in.db, lib.UnHex(f[2]), nil))
		case "scanown":
			out = append(out, c06Scan(in.db, nil, in.own.OwnsKey))
		case "sput", "sdel": // sput id kgc subj ns data val: through the real KeyedStateStore.ApplyMutations
			kgc, subj := atoi(f[2]), lib.UnHex(f[3])
			if !in.routed(kgc, subj) {
				out = append(out, "not-routed")
				continue
			}
			mut := &handlerpb.StateMutation{Mutation: &handlerpb.StateMutation_Delete{Delete: &handlerpb.DeleteMutation{Key: lib.UnHex(f[5])}}}
			if f[0] == "sput" {
				mut = &handlerpb.StateMutation{Mutation: &handlerpb.StateMutation_Put{Put: &handlerpb.PutMutation{Key: lib.UnHex(f[5]), Value: lib.UnHex(f[6])}}}
			}
			err := in.stateStore(kgc).ApplyMutations(subj, []*handlerpb.StateMutationNamespace{{Namespace: string(lib.UnHex(f[4])), Mutations: []*handlerpb.StateMutation{mut}}})
			in.dirty = true
			c06Wait(in.db)
			if err != nil {
				out = append(out, "err")
				continue
			}
			out = append(out, "ok")
		case "sget": // sget id kgc subj: what the handler is given (KeyedStateStore.GetState)
			kgc, subj := atoi(f[2]), lib.UnHex(f[3])
			if !in.routed(kgc, subj) {
				out = append(out, "not-routed")
				continue
			}
			nss, err := in.stateStore(kgc).GetState(subj)
			if err != nil {
				out = append(out, "err")
				continue
			}
			var parts []string
			for _, ns := range nss {
				for _, e := range ns.Entries {
					parts = append(parts, lib.Hex([]byte(ns.Namespace))+"/"+lib.Hex(e.Key)+"="+lib.Hex(e.Value))
				}
			}
			if len(parts) == 0 {
				out = append(out, "empty")
			} else {
				out = append(out, strings.Join(parts, ","))
			}
		case "tput": // tput id kgc subj t: real TimerStore.Put
			kgc, subj := atoi(f[2]), lib.UnHex(f[3])
			if !in.routed(kgc, subj) {
				out = append(out, "not-routed")
				continue
			}
			t, _ := strconv.ParseUint(f[4], 10, 64)
			in.timerStore(kgc).Put(subj, time.Unix(0, int64(t)))
			in.dirty = true
			c06Wait(in.db)
			out = append(out, "ok")
		case "hput", "hdel", "htimer": // a keyed event from the source runner through Operator.HandleEvent to the user handler
			op := w.ops[atoi(f[1])]
			if op == nil {
				out = append(out, "no-operator")
				continue
			}
			kgc, subj := atoi(f[2]), lib.UnHex(f[3])
			if !in.routed(kgc, subj) {
				out = append(out, "not-routed")
				continue
			}
			val := ""
			switch f[0] {
			case "hput":
				val = "p:" + f[4] + ":" + f[5] + ":" + f[6]
			case "hdel":
				val = "d:" + f[4] + ":" + f[5]
			default:
				val = "t:" + f[4]
			}
			w.hand.mu.Lock()
			w.hand.given = nil
			w.hand.mu.Unlock()
			res := c06Send(op, &workerpb.Event{Event: &workerpb.Event_KeyedEvent{KeyedEvent: &handlerpb.KeyedEvent{Key: subj, Value: []byte(val), Timestamp: timestamppb.New(time.Unix(0, 1))}}})
			in.dirty = true
			c06Wait(in.db)
			if res != "" {
				out = append(out, res)
				continue
			}
			w.hand.mu.Lock()
			out = append(out, strings.Join(w.hand.given, ";"))
			w.hand.mu.Unlock()
		case "hwm": // hwm id kgc t: a watermark from the source runner: the operator's timer registry fires the due timers
			op := w.ops[atoi(f[1])]
			if op == nil {
				out = append(out, "no-operator")
				continue
			}
			t, _ := strconv.ParseUint(f[3], 10, 64)
			w.hand.mu.Lock()
			w.hand.fired = nil
			w.hand.mu.Unlock()
			res := c06Send(op, &workerpb.Event{Event: &workerpb.Event_Watermark{Watermark: &workerpb.Watermark{Timestamp: timestamppb.New(time.Unix(0, int64(t)))}}})
			in.dirty = true
			c06Wait(in.db)
			if res != "" {
				out = append(out, res)
				continue
			}
			w.hand.mu.Lock()
			if len(w.hand.fired) == 0 {
				out = append(out, "none")
			} else {
				out = append(out, strings.Join(w.hand.fired, ","))
			}
			w.hand.mu.Unlock()
		case "tearliest": // tearliest id kgc: real TimerStore.GetEarliest over the operator's key groups
			tm, ok := in.timerStore(atoi(f[2])).GetEarliest()
			if !ok {
				out = append(out, "none")
			} else {
				out = append(out, fmt.Sprintf("%d %s", uint64(tm.Timestamp.UnixNano()), lib.Hex(tm.Key)))
			}
		default:
			out = append(out, "bad-op")
		}
	}
	return out
}

var _ kv.DataOwnership = c06Own{}

// ---- generator (pure) ----

// closed form of keyGroupRanges (C05.ranges_partition)
func c06GenRanges(kgc, n int) [][2]int {
	out := make([][2]int, n)
	start := func(i int) int { return i*(kgc/n) + min(i, kgc%n) }
	for i := range out {
		out[i] = [2]int{start(i), start(i + 1)}
	}
	return out
}

func c06ShowRanges(rs [][2]int) string {
	if len(rs) == 0 {
		return "-"
	}
	p := make([]string, len(rs))
	for i, r := range rs {
		p[i] = fmt.Sprintf("%d,%d", r[0], r[1])
	}
	return strings.Join(p, ";")
}

func c06Perms(n int) [][]int {
	var out [][]int
	var rec func(cur []int, used int)
	rec = func(cur []int, used int) {
		if len(cur) == n {
			out = append(out, append([]int(nil), cur...))
			return
		}
		for i := 0; i < n; i++ {
			if used&(1<<i) == 0 {
				rec(append(cur, i), used|1<<i)
			}
		}
	}
	rec(nil, 0)
	return out
}

func c06PermStr(p []int) string {
	s := make([]string, len(p))
	for i, x := range p {
		s[i] = strconv.Itoa(x)
	}
	return strings.Join(s, ",")
}

func c06Permute(rs [][2]int, p []int) [][2]int {
	out := make([][2]int, len(p))
	for i, x := range p {
		out[i] = rs[x]
	}
	return out
}

func c06RandPerm(r *lib.Rng, n int) []int {
	p := make([]int, n)
	for i := range p {
		p[i] = i
	}
	for i := n - 1; i > 0; i-- {
		j := r.Intn(i + 1)
		p[i], p[j] = p[j], p[i]
	}
	return p
}

var c06Subjects = [][]byte{[]byte("s0"), []byte("s1"), []byte("s2"), []byte("user-3"), []byte("k4"), {0x00}, {0xff, 0x80}, []byte("s7")}

// c06StoreWrites emits keyed-state mutations and timers for random subject keys, each offered to every instance of the
// generation: like the router, only the instance whose range holds the subject's key group applies it (the others
// answer not-routed), so every subject is written by exactly its owner.
func c06StoreWrites(r *lib.Rng, ops []string, ids []int, kgc, n int, tcount *int) []string {
	for i := 0; i < n; i++ {
		sj := lib.Hex(lib.Pick(r, c06Subjects))
		var op string
		switch r.Intn(5) {
		case 0:
			op = fmt.Sprintf("sdel %%d %d %s %s %s", kgc, sj, lib.Hex([]byte(lib.Pick(r, []string{"", "a", "ns"}))), lib.Hex(lib.Pick(r, [][]byte{{}, {1}, {2, 3}})))
		case 1:
			*tcount++
			op = fmt.Sprintf("tput %%d %d %s %d", kgc, sj, uint64(r.Intn(1<<30))<<8|uint64(*tcount&0xff))
		default:
			op = fmt.Sprintf("sput %%d %d %s %s %s %s", kgc, sj, lib.Hex([]byte(lib.Pick(r, []string{"", "a", "ns"}))), lib.Hex(lib.Pick(r, [][]byte{{}, {1}, {2, 3}})), lib.Hex(r.Bytes(r.Range(0, 4))))
		}
		for _, id := range ids {
			ops = append(ops, fmt.Sprintf(op, id))
		}
	}
	return ops
}

var c06Suffixes = [][]byte{{}, {0x00}, {0x61}, {0x61, 0x62}, {0xff}, {0x61, 0x00}, {0x00, 0x01, 0x02}}

func c06Key(kg int, suffix []byte) []byte {
	return append([]byte{byte(kg >> 8), byte(kg)}, suffix...)
}

func c06Overlap(a, b [2]int) bool { return b[0] < a[1] && b[1] > a[0] }

type c06Plan struct {
	kgc, m, n int
	perm      []int
	memOld    []int
	memNew    int
	target    int
	chain     int // 0 = none, else operator count of a second rescale
	nWrites   int
	tcount    *int // timers written so far in the case (keeps timestamps distinct)
	l0stack   bool // old instances checkpoint with several overlapping level-0 tables (compaction trigger out of reach)
}

var c06Filler = strings.Repeat("ab", 300) // 300 bytes: one put of this value overfills a 200-byte memtable: rotation + flush

// c06StackWrites emits rounds of small writes over a few keys of the instance, each round closed by a filler put that
// forces a flush: with a high level-0 compaction trigger the checkpoint then holds one level-0 table per round, the
// same keys overwritten or deleted across them, and later tables often start at smaller keys than earlier ones.
func c06StackWrites(r *lib.Rng, ops []string, id int, rg [2]int, rounds int, written map[string]bool) []string {
	if rg[1] <= rg[0] {
		return ops
	}
	var pool []string
	for i := 0; i < 4; i++ {
		pool = append(pool, lib.Hex(c06Key(r.Range(rg[0], rg[1]-1), lib.Pick(r, c06Suffixes))))
	}
	for round := 0; round < rounds; round++ {
		for i, n := 0, r.Range(1, 4); i < n; i++ {
			k := lib.Pick(r, pool)
			if r.Chance(1, 4) {
				ops = append(ops, fmt.Sprintf("del %d %s", id, k))
			} else {
				ops = append(ops, fmt.Sprintf("put %d %s %s", id, k, lib.Hex(r.Bytes(r.Range(1, 5)))))
			}
			written[k] = true
		}
		if round < rounds-1 || r.Chance(1, 2) { // sometimes the last round stays in memory (WAL) only
			k := lib.Pick(r, pool)
			ops = append(ops, fmt.Sprintf("put %d %s %s", id, k, c06Filler))
			written[k] = true
		}
	}
	return ops
}

// c06Writes emits a random history of writes/deletes for an instance over the key groups of its range.
func c06Writes(r *lib.Rng, ops []string, id int, rg [2]int, n int, written map[string]bool) []string {
	if rg[1] <= rg[0] {
		return ops
	}
	for i := 0; i < n; i++ {
		kg := r.Range(rg[0], rg[1]-1)
		k := lib.Hex(c06Key(kg, lib.Pick(r, c06Suffixes)))
		if r.Chance(1, 5) {
			ops = append(ops, fmt.Sprintf("del %d %s", id, k))
		} else {
			ops = append(ops, fmt.Sprintf("put %d %s %s", id, k, lib.Hex(c07Val(r))))
		}
		written[k] = true
	}
	return ops
}

func c06Observe(ops []string, id int, rg [2]int, kgc int, written map[string]bool) []string {
	ops = append(ops, fmt.Sprintf("scanown %d", id))
	var keys []string
	for k := range written {
		keys = append(keys, k)
	}
	slices.Sort(keys)
	for _, k := range keys {
		kb := lib.UnHex(k)
		kg := int(kb[0])<<8 | int(kb[1])
		if kg >= rg[0] && kg < rg[1] {
			ops = append(ops, fmt.Sprintf("get %d %s", id, k))
		}
	}
	// per key group scans (what the timer store and the keyed state store do), bounded
	for kg := rg[0]; kg < rg[1] && kg < rg[0]+6; kg++ {
		ops = append(ops, fmt.Sprintf("scan %d %s", id, lib.Hex(c06Key(kg, nil))))
	}
	// what the handler and the timer service see: the operator's own stores over this database
	if rg[1] > rg[0] {
		for _, sj := range c06Subjects {
			ops = append(ops, fmt.Sprintf("sget %d %d %s", id, kgc, lib.Hex(sj)))
		}
		ops = append(ops, fmt.Sprintf("tearliest %d %d", id, kgc))
	}
	return ops
}

// c06Rescale appends the ops that restore the checkpoints `cid` of instances oldIDs (ranges oldR, recorded in order
// perm) into n new instances with ids starting at base; returns the new ranges.
func c06Rescale(r *lib.Rng, ops []string, p c06Plan, oldIDs []int, oldR [][2]int, perm []int, cid, n, base int, written map[string]bool) ([]string, [][2]int) {
	newR := c06GenRanges(p.kgc, n)
	for i, nr := range newR {
		var hs []string
		for _, j := range perm {
			if c06Overlap(nr, oldR[j]) {
				hs = append(hs, fmt.Sprintf("%d:%d", oldIDs[j], cid))
			}
		}
		if len(hs) == 0 {
			// an operator without key groups gets no checkpoint and starts empty
			ops = append(ops, fmt.Sprintf("new %d %d %d %d %d", base+i, nr[0], nr[1], p.memNew, p.target))
		} else {
			ops = append(ops, fmt.Sprintf("open %d %d %d %d %d %s", base+i, nr[0], nr[1], p.memNew, p.target, strings.Join(hs, ",")))
		}
		ops = c06Observe(ops, base+i, nr, p.kgc, written)
		if len(hs) > 0 {
			// the content of the new operator's next checkpoint: nothing foreign beyond what shared source tables hold
			ops = append(ops, fmt.Sprintf("leak %d %d %s", base+i, 90+cid, strings.Join(hs, ",")))
		}
	}
	// writes after the restore to restored keys and new ones, then observe again (C03 behaviour after restore)
	newIDs := make([]int, len(newR))
	for i := range newR {
		newIDs[i] = base + i
	}
	if p.tcount != nil {
		ops = c06StoreWrites(r, ops, newIDs, p.kgc, r.Range(1, 5), p.tcount)
	}
	for i, nr := range newR {
		ops = c06Writes(r, ops, base+i, nr, p.nWrites/2+1, written)
		if r.Chance(1, 2) {
			ops = append(ops, fmt.Sprintf("settle %d", base+i))
		}
		ops = c06Observe(ops, base+i, nr, p.kgc, written)
	}
	return ops, newR
}

func c06GenCase(r *lib.Rng, p c06Plan) lib.Case {
	l0 := lib.Pick(r, []int{2, 2, 3})
	if p.l0stack {
		l0 = 9
	}
	c := lib.Case{Header: fmt.Sprintf("M C06 l0=%d amp=%d smallest=%d", l0, lib.Pick(r, []int{50, 50, 200, 1000}), lib.Pick(r, []int{1, 5000, 268435456}))}
	written := map[string]bool{}
	oldR := c06GenRanges(p.kgc, p.m)
	oldIDs := make([]int, p.m)
	var ops []string
	for j, rg := range oldR {
		oldIDs[j] = j
		ops = append(ops, fmt.Sprintf("new %d %d %d %d %d", j, rg[0], rg[1], p.memOld[j], p.target))
		if p.l0stack {
			ops = c06StackWrites(r, ops, j, rg, r.Range(2, 5), written)
		} else {
			ops = c06Writes(r, ops, j, rg, p.nWrites, written)
		}
	}
	tcount := 0
	p.tcount = &tcount
	ops = c06StoreWrites(r, ops, oldIDs, p.kgc, r.Range(2, 8), p.tcount)
	for j := range oldR {
		ops = append(ops, fmt.Sprintf("ckpt %d 1", j))
	}
	ops = append(ops, fmt.Sprintf("deploy %d %d %s", p.kgc, p.n, c06ShowRanges(c06Permute(oldR, p.perm))))
	var newR [][2]int
	ops, newR = c06Rescale(r, ops, p, oldIDs, oldR, p.perm, 1, p.n, 100, written)
	if p.chain > 0 {
		ids := make([]int, p.n)
		for i := range ids {
			ids[i] = 100 + i
			ops = append(ops, fmt.Sprintf("ckpt %d 2", 100+i))
		}
		// Second-generation instances keep everything after the restore in memory: with the open finding D37 their
		// composite level list can be invalid (overlapping deeper levels), and then what a read returns depends on
		// whether a background compaction has already rewritten it. Without flushes the layout is the restored one.
		p.memNew = 1 << 20
		ops, _ = c06Rescale(r, ops, p, ids, newR, c06RandPerm(r, p.n), 2, p.chain, 200, written)
	}
	// mechanism detail (sequence numbers) only after every property-level observation of the case: a divergence there
	// must not hide a later wrong read
	seen := map[string]bool{}
	for _, o := range ops {
		f := strings.Fields(o)
		if (f[0] == "open" || f[0] == "new") && !seen[f[1]] {
			seen[f[1]] = true
		}
	}
	var ids []int
	for id := range seen {
		v, _ := strconv.Atoi(id)
		ids = append(ids, v)
	}
	slices.Sort(ids)
	for _, id := range ids {
		ops = append(ops, fmt.Sprintf("seq %d", id))
	}
	c.Ops = ops
	c.Tags = []string{fmt.Sprintf("m%d", p.m), fmt.Sprintf("n%d", p.n)}
	if p.chain > 0 {
		c.Tags = append(c.Tags, "chain")
	}
	if p.l0stack {
		c.Tags = append(c.Tags, "l0stack")
	}
	return c
}

// c06HandlerWrites: keyed events and watermarks for random subject keys, sent from the deployed source runner to every
// operator of the generation (only the one the subject is routed to processes a keyed event): state mutations and timers
// go through the user handler into the operator's own KeyedStateStore / TimerRegistry; a watermark fires the due timers.
func c06HandlerWrites(r *lib.Rng, ops []string, ids []int, kgc, n int, tcount *int, wm *uint64) []string {
	for i := 0; i < n; i++ {
		sj := lib.Hex(lib.Pick(r, c06Subjects))
		var op string
		switch r.Intn(7) {
		case 0:
			op = fmt.Sprintf("hdel %%d %d %s %s %s", kgc, sj, lib.Hex([]byte(lib.Pick(r, []string{"", "a", "ns"}))), lib.Hex(lib.Pick(r, [][]byte{{}, {1}, {2, 3}})))
		case 1, 2:
			*tcount++
			// mostly above the current watermark (a timer on or before it is not stored)
			t := *wm + uint64(r.Range(1, 4000))<<8 | uint64(*tcount&0xff)
			if r.Chance(1, 6) && *wm > 1 {
				t = uint64(r.Intn(int(*wm)))
			}
			op = fmt.Sprintf("htimer %%d %d %s %d", kgc, sj, t)
		case 3:
			*wm += uint64(r.Range(1, 3000)) << 8
			op = fmt.Sprintf("hwm %%d %d %d", kgc, *wm)
		default:
			op = fmt.Sprintf("hput %%d %d %s %s %s %s", kgc, sj, lib.Hex([]byte(lib.Pick(r, []string{"", "a", "ns"}))), lib.Hex(lib.Pick(r, [][]byte{{}, {1}, {2, 3}})), lib.Hex(r.Bytes(r.Range(0, 4))))
		}
		for _, id := range ids {
			ops = append(ops, fmt.Sprintf(op, id))
		}
	}
	return ops
}

// c06GenCluster: M real operators (Operator.HandleDeploy) write state, flush at chosen points, checkpoint through a
// barrier from their source runner; the job checkpoint with the acknowledgements in a permuted order is handed to the real
// Assembly.Deploy of N new real operators; then the usual observations, writes after the restore, and the content of the
// next checkpoints.
func c06GenCluster(r *lib.Rng) lib.Case {
	kgc, m, n := lib.Pick(r, []int{3, 4, 7, 8, 16, 256}), r.Range(1, 4), r.Range(1, 4)
	c := lib.Case{Header: fmt.Sprintf("M C06 l0=%d amp=%d smallest=%d", lib.Pick(r, []int{2, 2, 3, 9}), lib.Pick(r, []int{50, 200}), lib.Pick(r, []int{1, 268435456})),
		Tags: []string{"cluster", fmt.Sprintf("m%d", m), fmt.Sprintf("n%d", n)}}
	written := map[string]bool{}
	oldR := c06GenRanges(kgc, m)
	oldIDs := make([]int, m)
	ops := []string{fmt.Sprintf("cnew 0 %d %d", kgc, m)}
	tcount := 0
	wm := uint64(0)
	for round := 0; round < r.Range(1, 3); round++ {
		for j, rg := range oldR {
			oldIDs[j] = j
			ops = c06Writes(r, ops, j, rg, r.Range(1, 6), written)
			if rg[1] > rg[0] && r.Chance(2, 3) {
				ops = append(ops, fmt.Sprintf("rot %d", j))
			}
		}
		ops = c06HandlerWrites(r, ops, oldIDs, kgc, r.Range(2, 7), &tcount, &wm)
	}
	acks := c06RandPerm(r, m)
	for _, j := range acks {
		ops = append(ops, fmt.Sprintf("cckpt %d 1", j))
	}
	dep := fmt.Sprintf("cdeploy 100 %d %d 1 %s", kgc, n, c06PermStr(acks))
	if r.Chance(1, 2) {
		// operators that keep running take (other) positions of the new assembly: redeploy of the same Operator objects
		cand := c06RandPerm(r, m)
		reuse := make([]string, n)
		for i := range reuse {
			reuse[i] = "-"
			if i < len(cand) && r.Chance(3, 4) {
				reuse[i] = strconv.Itoa(cand[i])
			}
		}
		dep += " " + strings.Join(reuse, ",")
	}
	ops = append(ops, dep)
	newR := c06GenRanges(kgc, n)
	newIDs := make([]int, n)
	observe := func() {
		for i, nr := range newR {
			ops = c06Observe(ops, 100+i, nr, kgc, written)
		}
	}
	for i := range newR {
		newIDs[i] = 100 + i
	}
	observe()
	for i, nr := range newR {
		var hs []string
		for _, j := range acks {
			if c06Overlap(nr, oldR[j]) {
				hs = append(hs, fmt.Sprintf("%d:1", j))
			}
		}
		if len(hs) > 0 {
			ops = append(ops, fmt.Sprintf("leak %d 91 %s", 100+i, strings.Join(hs, ",")))
		}
	}
	wm = 0 // a deployment starts the operators' watermark at the epoch again
	ops = c06HandlerWrites(r, ops, newIDs, kgc, r.Range(2, 8), &tcount, &wm)
	for i, nr := range newR {
		ops = c06Writes(r, ops, 100+i, nr, r.Range(1, 5), written)
		if nr[1] > nr[0] && r.Chance(1, 2) {
			ops = append(ops, fmt.Sprintf("rot %d", 100+i))
		}
	}
	observe()
	for _, id := range newIDs {
		ops = append(ops, fmt.Sprintf("seq %d", id))
	}
	c.Ops = ops
	return c
}

// c06GenSurvivor: a rescale in which operators keep running: every new instance that can restores INTO the directory of
// one of its source instances (preferably one that was NOT acknowledged first and has written the most table files), the
// old instances having written different numbers of tables. Then writes with flushes, reads of every restored key, the
// next checkpoint, and a second restore from it into a fresh directory with the same reads: a table file the first
// restore overwrote is read from disk there.
func c06GenSurvivor(r *lib.Rng) lib.Case {
	kgc, m := lib.Pick(r, []int{4, 8, 16, 256}), r.Range(2, 4)
	n := r.Range(1, m)
	c := lib.Case{Header: fmt.Sprintf("M C06 l0=9 amp=50 smallest=268435456"), Tags: []string{"survivor", fmt.Sprintf("m%d", m), fmt.Sprintf("n%d", n)}}
	written := map[string]bool{}
	oldR := c06GenRanges(kgc, m)
	var ops []string
	rounds := make([]int, m)
	for j, rg := range oldR {
		rounds[j] = r.Range(1, 5)
		ops = append(ops, fmt.Sprintf("new %d %d %d 200 1048576", j, rg[0], rg[1]))
		ops = c06StackWrites(r, ops, j, rg, rounds[j], written)
	}
	for j := range oldR {
		ops = append(ops, fmt.Sprintf("ckpt %d 1", j))
	}
	perm := c06RandPerm(r, m)
	newR := c06GenRanges(kgc, n)
	used := map[int]bool{}
	handlesOf := make([][]int, n)
	for i, nr := range newR {
		for _, j := range perm {
			if c06Overlap(nr, oldR[j]) {
				handlesOf[i] = append(handlesOf[i], j)
			}
		}
		if len(handlesOf[i]) == 0 {
			ops = append(ops, fmt.Sprintf("new %d %d %d 200 1048576", 100+i, nr[0], nr[1]))
			continue
		}
		// the surviving operator: not the first acknowledged one if possible, the one with the most table files
		dir := -1
		for pos, j := range handlesOf[i] {
			if used[j] {
				continue
			}
			if dir == -1 || (pos > 0 && rounds[j] >= rounds[dir]) {
				dir = j
			}
		}
		hs := make([]string, len(handlesOf[i]))
		for a, j := range handlesOf[i] {
			hs[a] = fmt.Sprintf("%d:1", j)
		}
		if dir >= 0 {
			used[dir] = true
			ops = append(ops, fmt.Sprintf("openin %d %d %d 200 1048576 %s %d", 100+i, nr[0], nr[1], strings.Join(hs, ","), dir))
		} else {
			ops = append(ops, fmt.Sprintf("open %d %d %d 200 1048576 %s", 100+i, nr[0], nr[1], strings.Join(hs, ",")))
		}
	}
	observe := func(base int) {
		for i, nr := range newR {
			ops = c06Observe(ops, base+i, nr, kgc, written)
		}
	}
	observe(100)
	for i, nr := range newR {
		ops = c06StackWrites(r, ops, 100+i, nr, r.Range(2, 4), written)
		if nr[1] > nr[0] {
			ops = append(ops, fmt.Sprintf("freshnames %d", 100+i))
		}
	}
	observe(100)
	for i := range newR {
		ops = append(ops, fmt.Sprintf("ckpt %d 2", 100+i))
	}
	for i, nr := range newR {
		ops = append(ops, fmt.Sprintf("open %d %d %d 1048576 1048576 %d:2", 200+i, nr[0], nr[1], 100+i))
	}
	observe(200)
	for i := range newR {
		ops = append(ops, fmt.Sprintf("seq %d", 100+i), fmt.Sprintf("seq %d", 200+i))
	}
	c.Ops = ops
	return c
}

func c06AssignCases(tier string) []lib.Case {
	var cs []lib.Case
	kgcs := []int{1, 2, 3, 4, 5, 7, 8, 16, 255, 256}
	if tier == "thorough" {
		kgcs = append(kgcs, 6, 9, 10, 11, 12, 13, 100, 65535)
	}
	for _, kgc := range kgcs {
		c := lib.Case{Header: "M C06", Tags: []string{"assign-exhaustive"}}
		for m := 1; m <= 5; m++ {
			for n := 1; n <= 5; n++ {
				for _, p := range c06Perms(m) {
					from := c06Permute(c06GenRanges(kgc, m), p)
					c.Ops = append(c.Ops, fmt.Sprintf("assign %s %s", c06ShowRanges(c06GenRanges(kgc, n)), c06ShowRanges(from)))
					c.Ops = append(c.Ops, fmt.Sprintf("assigncheck %d %d %d %s", kgc, m, n, c06PermStr(p)))
					if m <= 3 || n == 2 {
						c.Ops = append(c.Ops, fmt.Sprintf("deploy %d %d %s", kgc, n, c06ShowRanges(from)))
					}
				}
			}
		}
		cs = append(cs, c)
	}
	// the repository's own examples and degenerate inputs
	c := lib.Case{Header: "M C06", Tags: []string{"assign-misc"}}
	for _, tf := range [][2]string{{"0,2;2,4;4,6", "0,1;1,3;3,6"}, {"0,6", "0,1;1,3;3,6"}, {"0,1;1,3;3,6", "0,6"}, {"0,4;4,5", "0,1;1,3;3,6"},
		{"0,1;2,3", "-"}, {"0,1;2,3", "4,5"}, {"-", "0,1"}, {"0,4;4,8", "6,8;0,2;4,6;2,4"}, {"0,3;3,3;3,5", "3,5;0,3"}} {
		c.Ops = append(c.Ops, fmt.Sprintf("assign %s %s", tf[0], tf[1]))
	}
	cs = append(cs, c)
	return cs
}

func propC06() *lib.Prop {
	return &lib.Prop{
		ID:       "C06",
		FeedImpl: true,
		Corr:     "Model/Rescale.lean (assignRanges, openDB, getR/scanR over Model/Lsm.lean) ↔ partitioning.AssignRanges, jobs.Assembly.Deploy, recovery.LoadCheckpointList, dkv.DB.Start with OperatorPartition ownership, LevelList.Get/AllTablesForPrefix, operator.KeyedStateStore.GetState/ApplyMutations, operator.TimerStore.Put/GetEarliest",
		Rule:     "cases = (a) AssignRanges/Assembly.Deploy on every permutation of the recorded checkpoints for M,N ≤ 5; (b) M real DKV instances (state in memory, level 0, compacted) checkpointed, restored into N instances with OperatorPartition ownership in a permuted handle order, full owned scan + per-key-group scans + gets + the operator's own reads (real KeyedStateStore.GetState for every subject key, real TimerStore.GetEarliest) after keyed-state mutations and timers were offered to every instance and applied only by the routed one, then writes/deletes/mutations after the restore and the same observations; optionally a second rescale of the restored instances. non-trivial = a DKV case in which some new instance was opened from ≥ 2 handles (plus the scale-out witness of D6)",
		NumCases: func(tier string) int {
			if tier == "thorough" {
				return 1500
			}
			return 160
		},
		Fixed: func(tier string) []lib.Case {
			cs := c06AssignCases(tier)
			// D7 witness
			cs = append(cs, lib.Case{Header: "M C06", Tags: []string{"D7"}, Ops: []string{
				"assign 0,128;128,256 128,256;0,128", "assigncheck 256 2 2 1,0", "deploy 256 2 128,256;0,128"}})
			// D8 witness: three instances compacted to the base level, handles in descending key order
			d8 := lib.Case{Header: "M C06 l0=2 amp=50 smallest=268435456", Tags: []string{"D8"}}
			for j, kg := range []int{1, 0x80, 0xc0} {
				lo, hi := []int{0, 86, 171}[j], []int{86, 171, 256}[j]
				d8.Ops = append(d8.Ops, fmt.Sprintf("new %d %d %d 1 1048576", j, lo, hi),
					fmt.Sprintf("put %d %s 7661", j, lib.Hex(c06Key(kg, []byte("a")))),
					fmt.Sprintf("put %d %s 7662", j, lib.Hex(c06Key(kg, []byte("b")))),
					fmt.Sprintf("ckpt %d 1", j))
			}
			d8.Ops = append(d8.Ops, "open 100 0 256 1048576 1048576 2:1,1:1,0:1")
			for _, kg := range []int{1, 0x80, 0xc0} {
				d8.Ops = append(d8.Ops, "get 100 "+lib.Hex(c06Key(kg, []byte("a"))), "get 100 "+lib.Hex(c06Key(kg, []byte("b"))))
			}
			d8.Ops = append(d8.Ops, "scanown 100")
			cs = append(cs, d8)
			// D6 witness: the table's last key carries the smallest sequence number; scale out; overwrite a restored key
			big := strings.Repeat("00", 300)
			d6 := lib.Case{Header: "M C06 l0=2 amp=50 smallest=268435456", Tags: []string{"D6"}, Ops: []string{
				"new 0 0 256 200 1048576",
				"put 0 " + lib.Hex(c06Key(0xf9, []byte("k9"))) + " 7639",
				"put 0 " + lib.Hex(c06Key(0xf5, []byte("k5"))) + " 7635",
				"put 0 " + lib.Hex(c06Key(0xf4, []byte("k4"))) + " 7634",
				"put 0 " + lib.Hex(c06Key(0x01, []byte("k1"))) + " " + big,
				"ckpt 0 1",
				"open 100 0 128 1048576 1048576 0:1",
				"put 100 " + lib.Hex(c06Key(0x01, []byte("k1"))) + " 6e6577",
				"get 100 " + lib.Hex(c06Key(0x01, []byte("k1"))),
				"scan 100 " + lib.Hex(c06Key(0x01, nil)),
				"scanown 100",
				"seq 100",
			}}
			cs = append(cs, d6)
			// level-0 age order: the old instance checkpoints with two level-0 tables, the newer one starting at a
			// smaller key and overwriting / deleting keys of the older one; Get must see the newer versions after a
			// restore from several handles in either order
			kLow, kMid, kDel, kHi := lib.Hex(c06Key(0x10, []byte("a"))), lib.Hex(c06Key(0x20, []byte("m"))), lib.Hex(c06Key(0x30, []byte("d"))), lib.Hex(c06Key(0x70, []byte("z")))
			for _, order := range []string{"0:1,1:1", "1:1,0:1"} {
				l0c := lib.Case{Header: "M C06 l0=9 amp=50 smallest=268435456", Tags: []string{"l0order"}, Ops: []string{
					"new 0 0 128 200 1048576",
					"put 0 " + kMid + " 01", "put 0 " + kDel + " 02", "put 0 " + kHi + " " + c06Filler, // table 1: kMid, kDel, kHi
					"put 0 " + kLow + " 03", "put 0 " + kMid + " 04", "del 0 " + kDel, "put 0 " + kHi + " " + c06Filler, // table 2 starts at kLow
					"new 1 128 256 200 1048576",
					"put 1 " + lib.Hex(c06Key(0x90, []byte("q"))) + " 05",
					"ckpt 0 1", "ckpt 1 1",
					"open 100 0 256 1048576 1048576 " + order,
					"get 100 " + kMid, "get 100 " + kDel, "get 100 " + kLow, "get 100 " + kHi, "scanown 100",
					// 2 -> 3: the middle operator [86,171) restores both handles
					"open 101 86 171 1048576 1048576 " + order,
					"get 101 " + kHi, "scanown 101",
					"open 102 0 86 1048576 1048576 0:1",
					"get 102 " + kMid, "get 102 " + kDel, "get 102 " + kLow, "scanown 102",
					// writes after the multi-handle restore must win in scans (sequence number above both sources)
					"put 100 " + kMid + " 06", "scan 100 " + lib.Hex(c06Key(0x20, nil)), "get 100 " + kMid,
					"seq 100", "seq 101", "seq 102",
				}}
				cs = append(cs, l0c)
			}
			// the real path end to end: two real operators, acknowledgements in the order (1, 0), Assembly.Deploy of two and of
			// three new real operators (D7 lost operator 0's state here)
			for _, n := range []int{2, 3, 1} {
				cl := lib.Case{Header: "M C06 l0=2 amp=50 smallest=1", Tags: []string{"cluster", "cluster-fixed"}, Ops: []string{
					"cnew 0 8 2", "put 0 000161 aa", "put 1 000561 bb", "rot 0", "put 0 000261 cc",
					"sput 0 8 7330 61 01 dd", "sput 1 8 7330 61 01 dd", "tput 0 8 7331 700", "tput 1 8 7331 700", "rot 1", "put 1 000661 ee",
					"cckpt 1 1", "cckpt 0 1", fmt.Sprintf("cdeploy 100 8 %d 1 1,0", n),
				}}
				for i, nr := range c06GenRanges(8, n) {
					cl.Ops = c06Observe(cl.Ops, 100+i, nr, 8, map[string]bool{"000161": true, "000561": true, "000261": true, "000661": true})
				}
				for i := 0; i < n; i++ {
					cl.Ops = append(cl.Ops, fmt.Sprintf("hput %d 8 7330 61 03 ff", 100+i), fmt.Sprintf("htimer %d 8 7330 900", 100+i), fmt.Sprintf("hwm %d 8 800", 100+i))
				}
				for i := 0; i < n; i++ {
					cl.Ops = append(cl.Ops, fmt.Sprintf("hwm %d 8 1000", 100+i), fmt.Sprintf("sget %d 8 7330", 100+i), fmt.Sprintf("tearliest %d 8", 100+i))
				}
				cl.Ops = append(cl.Ops, "put 100 000161 a2", "rot 100", "get 100 000161", "scan 100 0001", "seq 100")
				cs = append(cs, cl)
			}
			// open finding D37 on the real code (4 -> 3 -> 1): instance 101 = [86,171) restores old 1's table, which holds a key
			// of group 0x41 it does not own, and its compaction re-writes it; merged with 100's table the base level overlaps
			// and Get of 100's key 0047ff lands on 101's table. Tagged D37 by the driver only because the merged level overlaps.
			cs = append(cs, lib.Case{Header: "M C06 l0=2 amp=50 smallest=1", Tags: []string{"D37-witness"}, Ops: []string{
				"new 0 0 64 400 1048576", "new 1 64 128 1 1048576", "put 1 00416162 5a", "new 2 128 192 400 1048576", "put 2 009a00 -",
				"new 3 192 256 1 1048576", "ckpt 0 1", "ckpt 1 1", "ckpt 2 1", "ckpt 3 1",
				"open 100 0 86 1 1048576 1:1,0:1", "open 101 86 171 1 1048576 2:1,1:1", "open 102 171 256 1 1048576 3:1,2:1",
				"put 100 0047ff 6222", "ckpt 100 2", "ckpt 101 2", "ckpt 102 2",
				"open 200 0 256 1048576 1048576 102:2,100:2,101:2",
				"get 200 0047ff", "get 200 00416162", "get 200 009a00", "scanown 200", "seq 200",
			}})
			// open finding D47 on the real code (1 -> 2 -> 1, split then merge): both 100 and 101 reference old 0's table T
			// (k = old); 100 overwrites k; merging [100, 101] makes 101's copy of T the newest level-0 table: Get k = old, while
			// the scan (by sequence number) and the order [101, 100] give new. Tagged D47 on the Get of k only.
			k47 := lib.Hex(c06Key(0x0a, []byte("k")))
			cs = append(cs, lib.Case{Header: "M C06 l0=9 amp=50 smallest=268435456", Tags: []string{"D47-witness"}, Ops: []string{
				"new 0 0 256 200 1048576", "put 0 " + k47 + " 01", "put 0 " + lib.Hex(c06Key(0xf0, []byte("z"))) + " " + c06Filler, "ckpt 0 1",
				"open 100 0 128 200 1048576 0:1", "open 101 128 256 200 1048576 0:1",
				"get 100 " + k47, "put 100 " + k47 + " 02", "put 100 " + lib.Hex(c06Key(0x0b, []byte("f"))) + " " + c06Filler,
				"ckpt 100 2", "ckpt 101 2",
				"open 200 0 256 1048576 1048576 100:2,101:2", "get 200 " + k47, "scan 200 " + lib.Hex(c06Key(0x0a, nil)), "scanown 200",
				"open 201 0 256 1048576 1048576 101:2,100:2", "get 201 " + k47, "scan 201 " + lib.Hex(c06Key(0x0a, nil)),
				"seq 200", "seq 201",
			}})
			// redeploy of running operators: two operators, same counts, positions exchanged (the operator list the job sends
			// changed order): each must take the range of its NEW position and the checkpoints assigned to it
			cs = append(cs, lib.Case{Header: "M C06 l0=2 amp=50 smallest=1", Tags: []string{"cluster", "cluster-redeploy"}, Ops: []string{
				"cnew 0 8 2", "put 0 000161 aa", "put 1 000561 bb", "hput 0 8 7330 61 01 dd", "hput 1 8 7330 61 01 dd", "rot 0", "rot 1",
				"cckpt 0 1", "cckpt 1 1", "cdeploy 100 8 2 1 0,1 1,0",
				"scanown 100", "scanown 101", "get 100 000161", "get 101 000561", "sget 100 8 7330", "sget 101 8 7330",
				"hput 100 8 7330 61 02 ee", "hput 101 8 7330 61 02 ee", "put 100 000261 cc", "rot 100", "freshnames 100", "scanown 100", "seq 100", "seq 101",
			}})
			// open finding D72 on the real code (the D50 family): two running operators are redeployed from job checkpoint 1 with
			// their positions exchanged (each keeps its directory, restores the other's handle); operator 0's next checkpoint
			// rewrites the `checkpoints` document of its directory, so its retained handle of checkpoint 1 now resolves to the
			// other operator's state: a redeploy from checkpoint 1 again loses its key. Tagged D72 only on instance 200.
			cs = append(cs, lib.Case{Header: "M C06 l0=2 amp=50 smallest=268435456", Tags: []string{"D72-witness"}, Ops: []string{
				"new 0 0 128 1048576 1048576", "put 0 000161 7661", "new 1 128 256 1048576 1048576", "put 1 008162 7662",
				"ckpt 0 1", "ckpt 1 1",
				"openin 100 128 256 1048576 1048576 1:1 0", "openin 101 0 128 1048576 1048576 0:1 1",
				"get 100 008162", "get 101 000161", "scanown 100", "scanown 101",
				"ckpt 100 2",
				"open 200 0 128 1048576 1048576 0:1", "get 200 000161", "scanown 200",
				"open 201 128 256 1048576 1048576 1:1", "get 201 008162", "scanown 201",
			}})
			// scale-in form of D6: the source with the highest sequence numbers sits in the base level, the other source
			// has a level-0 table with small ones; the composite's sequence number must be above BOTH (the old
			// instances number their writes independently), else a write to a restored key loses in scans
			kA, kB := lib.Hex(c06Key(0x11, []byte("a"))), lib.Hex(c06Key(0x91, []byte("b")))
			for _, order := range []string{"0:1,1:1", "1:1,0:1"} {
				sq := lib.Case{Header: "M C06 l0=2 amp=50 smallest=268435456", Tags: []string{"seq-two-sources"}, Ops: []string{
					"new 0 0 128 1 1048576",
					"put 0 " + kA + " a1", "put 0 " + lib.Hex(c06Key(0x12, nil)) + " 00", "put 0 " + lib.Hex(c06Key(0x13, nil)) + " 00",
					"put 0 " + lib.Hex(c06Key(0x14, nil)) + " 00", "put 0 " + lib.Hex(c06Key(0x15, nil)) + " 00", "put 0 " + kA + " a6",
					"new 1 128 256 200 1048576",
					"put 1 " + kB + " b1", "put 1 " + lib.Hex(c06Key(0x92, nil)) + " " + c06Filler,
					"ckpt 0 1", "ckpt 1 1",
					"open 100 0 256 1048576 1048576 " + order,
					"get 100 " + kA, "put 100 " + kA + " a7", "del 100 " + kB,
					"scan 100 " + lib.Hex(c06Key(0x11, nil)), "get 100 " + kA, "scan 100 " + lib.Hex(c06Key(0x91, nil)), "get 100 " + kB,
					"scanown 100", "seq 100",
				}}
				cs = append(cs, sq)
			}
			return cs
		},
		Gen: func(r *lib.Rng, tier string, i int) lib.Case {
			if i%6 == 5 {
				return c06GenCluster(r)
			}
			if i%6 == 2 {
				return c06GenSurvivor(r)
			}
			p := c06Plan{kgc: lib.Pick(r, []int{2, 3, 4, 5, 7, 8, 16, 256}), m: r.Range(1, 5), n: r.Range(1, 5)}
			p.perm = c06RandPerm(r, p.m)
			if i%7 == 0 { // descending key order stresses the merged deeper levels
				for a := range p.perm {
					p.perm[a] = p.m - 1 - a
				}
			}
			for j := 0; j < p.m; j++ {
				p.memOld = append(p.memOld, lib.Pick(r, []int{1, 1, 60, 150, 400, 1 << 20}))
			}
			p.memNew = lib.Pick(r, []int{1, 100, 1 << 20, 1 << 20})
			p.target = lib.Pick(r, []int{64, 200, 1 << 20})
			p.nWrites = r.Range(3, 14)
			if r.Chance(1, 4) {
				p.chain = r.Range(1, 4)
			}
			if i%3 == 1 {
				// several overlapping level-0 tables per old instance at the checkpoint; new instances keep their writes
				// in memory so the restored level 0 is what the reads go through
				p.l0stack = true
				p.chain = 0
				p.m = r.Range(2, 4)
				p.perm = c06RandPerm(r, p.m)
				p.memOld = nil
				for j := 0; j < p.m; j++ {
					p.memOld = append(p.memOld, 200)
				}
				p.memNew = 1 << 20
				p.target = 1 << 20
				if p.n >= p.m && r.Chance(1, 2) {
					p.n = r.Range(1, p.m-1) // scale in
				}
			}
			return c06GenCase(r, p)
		},
		Impl: runC06,
		MObs: func(op string) bool {
			return strings.HasPrefix(op, "ckpt ") || strings.HasPrefix(op, "cckpt ") || strings.HasPrefix(op, "cnew ") || strings.HasPrefix(op, "rot ") || strings.HasPrefix(op, "open ") || strings.HasPrefix(op, "openin ") || strings.HasPrefix(op, "seq ") || strings.HasPrefix(op, "new ") || strings.HasPrefix(op, "settle ")
		},
		Nontrivial: func(c lib.Case, out []string) bool {
			for _, o := range c.Ops {
				if strings.HasPrefix(o, "open ") {
					f := strings.Fields(o)
					if strings.Contains(f[6], ",") {
						return true
					}
				}
			}
			for _, o := range c.Ops {
				if strings.HasPrefix(o, "cdeploy ") {
					return true
				}
			}
			return slices.Contains(c.Tags, "D6")
		},
	}
}
