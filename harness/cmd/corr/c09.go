package main

// C09 — files needed by retained checkpoints or live tables are never deleted.
//
// Trace validation of real dkv.DB instances (real sst table cleanups via runtime.AddCleanup, real
// recovery.CheckpointList, real workers/operator.OperatorPartition.ExclusivelyOwnsTable) sharing one in-memory file
// store. The garbage collector is forced at the trace's `gc` points (runtime.GC twice, then a sentinel cleanup shows
// that the cleanup goroutine has drained its queue). Neighbour operators are fakes that look up the running instance
// serving the asked key-group range and answer with its real DB.NeedsTable, an error, or a delayed error.
// Every deletion is observed by diffing the listing of the file store; every cleanup decision is observed at the
// data-ownership call (loaded tables) or the verif hook in the cleanup closure (created tables).

import (
	"context"
	"encoding/json"
	"errors"
	"flag"
	"fmt"
	"io"
	"iter"
	"log/slog"
	"os"
	"path/filepath"
	"runtime"
	"runtime/debug"
	"sort"
	"strconv"
	"strings"
	"sync"
	"time"
	"weak"

	"reduction.dev/reduction/dkv"
	"reduction.dev/reduction/dkv/kv"
	"reduction.dev/reduction/dkv/recovery"
	"reduction.dev/reduction/dkv/sst"
	"reduction.dev/reduction/dkv/storage"
	"reduction.dev/reduction/partitioning"
	"reduction.dev/reduction/proto"
	"reduction.dev/reduction/proto/jobpb"
	"reduction.dev/reduction/proto/snapshotpb"
	"reduction.dev/reduction/proto/workerpb"
	"reduction.dev/reduction/util/verifhook"
	"reduction.dev/reduction/workers/operator"
	"verif/harness/lib"
)

func init() { register("C09", propC09) }

type c09Inst struct {
	idx      int
	db       *dkv.DB // nil once released
	gen      int
	lo, hi   int
	alive    bool
	mode     string
	snaps    []*c09Snap
	known    map[string]bool
	events   []string
	ckptIDs  []uint64
	hangWait time.Duration
	dir      int // storage directory i<dir> (its own index unless it reuses the directory of an earlier instance)
	// a real operator.Operator serving this instance (deployed through HandleDeploy); neighbours then ask it through
	// HandleNeedsTable
	op        *operator.Operator
	deployReq *workerpb.DeployOperatorRequest
	srcDocs   []string // documents the deploy reads (relative paths)
	host      *c09Host
	// hosted instances: the tables loaded at the deploy, and whose cleanup has run
	loadedSet map[string]bool
	// how many table objects the instance loaded per file (a composite checkpoint may list a table once per handle),
	// and how many of their cleanups have run
	loadedCnt, cleaned map[string]int
	crashed            bool
	loadedSpan         map[string][2]int // key groups of first and last key
	nbrRanges          [][2]int
}

// c09Host: which instance (and assembly generation) the operator object serves now; the neighbour stubs its
// HandleDeploy creates ask on behalf of that instance
type c09Host struct {
	gen, idx int
}

// c09DrainScan reads a held scan to its end. Stopping it early instead would leave the tables pinned for ever:
// mergesort.Merge pulls every source through iter.Pull and never stops those coroutines, so an abandoned scan leaks
// one parked coroutine per merged table, each holding its *sst.Table (observed on the real code; the released
// instance's tables were then never collected).
func c09DrainScan(sn *c09Snap) {
	if sn == nil || sn.next == nil {
		return
	}
	c09Guard(func() string {
		for {
			if _, ok := sn.next(); !ok {
				break
			}
		}
		sn.stop()
		return ""
	})
}

// c09Snap is something that pins a level list of an instance: the list itself (a reader that took
// currentSSTables), or a real DB.ScanPrefix iterator that was started and is held half-way
type c09Snap struct {
	uris []string // what it pins (relative paths), as of the call
	ll   *sst.LevelList
	next func() (kv.Entry, bool)
	stop func()
	err  *error
}

type c09Handle struct {
	writer int
	id     uint64
}

type c09World struct {
	mu       sync.Mutex
	prefix   string // URI prefix of the case's file store
	store    c09Store
	insts    []*c09Inst
	grave    []*dkv.DB // crashed instances: their objects must never run cleanups during the case
	cleanups []string
	// loaded-table cleanups whose decision the ownership wrapper has already recorded (the hook point follows it)
	wrapped map[string]int
	// held scans that can never be finished because a file they read is gone (a loss recorded earlier): an abandoned
	// scan keeps its tables pinned for good (mergesort.Merge never stops the sources it pulls, D62); the level list is
	// kept here so that exactly the tables of the scan stay pinned, whatever the coroutines hold
	stuck []*c09Snap
	// table → instance on whose behalf a neighbour was last asked about it (consumed by the cleanup hook)
	asking map[string]int
	// census of table objects: weak pointers to every table object seen, cleanup events delivered (all, and per uri)
	tracked     map[weak.Pointer[sst.Table]]string
	cleanEvents int
	cleanByURI  map[string]int
	closed      bool
	retained    []c09Handle
	nextID      uint64
	// a NeedsTable call of the harness parked between its two reads (hook dkv.needstable.between)
	askArmed  bool
	askDB     *dkv.DB
	askParked chan struct{}
	askResume chan struct{}
	askAnswer chan bool
	slowUsed  bool
	docOwner  map[int]int                     // directory -> instance whose checkpoints document is there now
	creator   map[string]int                  // table uri -> instance that wrote it
	walSig    map[c09Handle]map[string]string // handle -> WAL path -> content signature when the handle was taken
	hFiles    map[c09Handle][2][]string       // handle -> (tables, WALs) its document entry listed when it was taken
	tblSig    map[string]string               // table path -> content signature when its write was observed
	// a compaction of one instance held while it creates an output file (D63 witness)
	gateArmed  bool
	gateInst   int
	gateHit    chan struct{}
	gateRel    chan struct{}
	compacting map[int]bool
	lateDB     *dkv.DB // the released instance whose compaction is still held
	lateInst   int
	lateTables []string // what that compaction wrote once it was let go
}

// c09GateFS parks the creation of a table file by an armed instance's compaction
type c09GateFS struct {
	storage.FileSystem
	w   *c09World
	idx int
}

func (g *c09GateFS) New(path string) storage.File {
	if strings.HasSuffix(path, ".sst") {
		g.w.mu.Lock()
		park := g.w.gateArmed && g.w.gateInst == g.idx && g.w.compacting[g.idx]
		var hit, rel chan struct{}
		if park {
			g.w.gateArmed = false
			hit, rel = g.w.gateHit, g.w.gateRel
		}
		g.w.mu.Unlock()
		if park {
			close(hit)
			<-rel
		}
	}
	return g.FileSystem.New(path)
}

func (w *c09World) dirOf(idx int) int {
	if idx >= 0 && idx < len(w.insts) {
		return w.insts[idx].dir
	}
	return idx
}

// sig identifies the content of a file (an overwritten WAL has the same name and other content)
func (w *c09World) sig(rel string) string {
	b, err := w.store.read(rel)
	if err != nil {
		return "absent"
	}
	h := uint64(1469598103934665603)
	for _, c := range b {
		h = (h ^ uint64(c)) * 1099511628211
	}
	return fmt.Sprintf("%d:%x", len(b), h)
}

func (w *c09World) canon(uri string) string { return strings.TrimPrefix(uri, w.prefix) }

// c09Store is the file store all instances of a case share: the repository's in-memory filesystem, or a directory
// on a RAM disk when real operator.Operators take part (HandleDeploy builds its filesystem from a location string).
type c09Store interface {
	instFS(name string) storage.FileSystem
	list() []string // relative paths of all table and WAL files
	exists(rel string) bool
	read(rel string) ([]byte, error)
	location() string // StorageLocation for an operator deploy ("" if operators cannot use this store)
	hide(rel string, hidden bool) error
	close()
}

type c09MemStore struct{ root *storage.MemoryFilesystem }

func (m *c09MemStore) instFS(name string) storage.FileSystem { return m.root.WithWorkingDir(name) }
func (m *c09MemStore) list() []string                        { return m.root.List() }
func (m *c09MemStore) exists(rel string) bool                { return m.root.Exists(rel) }
func (m *c09MemStore) read(rel string) ([]byte, error) {
	return io.ReadAll(&storage.Cursor{File: m.root.Open(rel)})
}
func (m *c09MemStore) location() string                   { return "" }
func (m *c09MemStore) hide(rel string, hidden bool) error { return errors.New("unsupported") }
func (m *c09MemStore) close()                             {}

type c09DirStore struct{ dir string }

func (d *c09DirStore) instFS(name string) storage.FileSystem {
	os.MkdirAll(filepath.Join(d.dir, name), 0o755)
	return &storage.LocalFilesystem{Dir: filepath.Join(d.dir, name)}
}
func (d *c09DirStore) list() []string {
	var out []string
	filepath.WalkDir(d.dir, func(p string, e os.DirEntry, err error) error {
		if err == nil && !e.IsDir() {
			if rel, err := filepath.Rel(d.dir, p); err == nil {
				out = append(out, rel)
			}
		}
		return nil
	})
	return out
}
func (d *c09DirStore) exists(rel string) bool {
	_, err := os.Stat(filepath.Join(d.dir, rel))
	return err == nil
}
func (d *c09DirStore) read(rel string) ([]byte, error) { return os.ReadFile(filepath.Join(d.dir, rel)) }
func (d *c09DirStore) location() string                { return d.dir }
func (d *c09DirStore) hide(rel string, hidden bool) error {
	p := filepath.Join(d.dir, rel)
	if hidden {
		return os.Rename(p, p+".unavailable")
	}
	return os.Rename(p+".unavailable", p)
}
func (d *c09DirStore) close() { os.RemoveAll(d.dir) }

// ---- fake neighbour operator ----

type c09Neighbor struct {
	proto.UnimplementedOperator
	w     *c09World
	gen   int
	r     partitioning.KeyGroupRange
	asker int
}

func (n *c09Neighbor) NeedsTable(ctx context.Context, uri string) (bool, error) {
	n.w.mu.Lock()
	if n.w.closed {
		n.w.mu.Unlock()
		return false, errors.New("case finished")
	}
	// whose cleanup is asking (an operator-served instance has no ownership wrapper that could tell)
	if n.w.asking == nil {
		n.w.asking = map[string]int{}
	}
	n.w.asking[uri] = n.asker
	var target *c09Inst
	for _, x := range n.w.insts {
		if x.alive && x.db != nil && x.gen == n.gen && x.lo == n.r.Start && x.hi == n.r.End {
			target = x
			break
		}
	}
	var db *dkv.DB
	var op *operator.Operator
	mode := "err"
	if target != nil {
		db, op, mode = target.db, target.op, target.mode
	}
	n.w.mu.Unlock()
	switch mode {
	case "truthful":
		if op != nil {
			return c09AskOperator(op, uri)
		}
		return db.NeedsTable(uri), nil
	case "slow":
		// answers "yes", but only after longer than any deadline a caller might reasonably impose; a caller that gives
		// up first gets its own context error (only the first call of a case is slow: cleanups run one after another)
		n.w.mu.Lock()
		first := !n.w.slowUsed
		n.w.slowUsed = true
		n.w.mu.Unlock()
		if !first {
			return true, nil
		}
		select {
		case <-ctx.Done():
			return false, ctx.Err()
		case <-time.After(c09SlowAnswer):
			return true, nil
		}
	case "hang":
		select {
		case <-ctx.Done():
			return false, ctx.Err()
		case <-time.After(15 * time.Millisecond):
			return false, errors.New("deadline exceeded")
		}
	}
	return false, errors.New("operator unavailable")
}

const c09SlowAnswer = 6500 * time.Millisecond

// c09AskOperator is the RPC adapter in front of a real operator: a panicking handler is an error for the caller
func c09AskOperator(op *operator.Operator, uri string) (needed bool, err error) {
	defer func() {
		if r := recover(); r != nil {
			needed, err = false, fmt.Errorf("NeedsTable: %v", r)
		}
	}()
	return op.HandleNeedsTable(uri), nil
}

// ---- ownership wrapper: attributes every cleanup decision to its instance ----

type c09Ownership struct {
	w     *c09World
	idx   int
	inner *operator.OperatorPartition
}

func (o *c09Ownership) OwnsKey(key []byte) bool { return o.inner.OwnsKey(key) }
func (o *c09Ownership) ExclusivelyOwnsTable(uri string, startKey, endKey []byte) (bool, error) {
	can, err := o.inner.ExclusivelyOwnsTable(uri, startKey, endKey)
	if strings.HasPrefix(uri, o.w.prefix) {
		d := "keep"
		if can {
			d = "del"
		}
		o.w.mu.Lock()
		if !o.w.closed {
			o.w.cleanups = append(o.w.cleanups, fmt.Sprintf("%d:%s:l:%s", o.idx, o.w.canon(uri), d))
			if o.w.wrapped == nil {
				o.w.wrapped = map[string]int{}
			}
			o.w.wrapped[uri]++
		}
		o.w.mu.Unlock()
	}
	return can, err
}

func c09KG(key []byte) int {
	if len(key) < 2 {
		return 0
	}
	return int(key[0])<<8 | int(key[1])
}

func (w *c09World) tblString(uri string, start, end []byte) string {
	return fmt.Sprintf("%s:%d:%d", w.canon(uri), c09KG(start), c09KG(end))
}

func (w *c09World) instOf(db any) *c09Inst {
	for _, x := range w.insts {
		if x.db != nil && any(x.db) == db {
			return x
		}
	}
	return nil
}

func (w *c09World) isLate(db any) bool { return w.lateDB != nil && any(w.lateDB) == db }

func (w *c09World) hook(label string, payload []any) {
	switch label {
	case "dkv.needstable.between":
		w.mu.Lock()
		park := w.askArmed && len(payload) > 0 && payload[0] == any(w.askDB)
		var parked, resume chan struct{}
		if park {
			w.askArmed = false
			parked, resume = w.askParked, w.askResume
		}
		w.mu.Unlock()
		if park {
			close(parked)
			<-resume
		}
	case "sst.table.cleanup":
		if len(payload) < 2 {
			return
		}
		uri, _ := payload[0].(string)
		kind, _ := payload[1].(string)
		w.mu.Lock()
		w.cleanEvents++
		if w.cleanByURI == nil {
			w.cleanByURI = map[string]int{}
		}
		w.cleanByURI[uri]++
		w.mu.Unlock()
		if kind == "loaded" && strings.HasPrefix(uri, w.prefix) && len(payload) >= 3 {
			// an instance served by a real operator.Operator has the operator's own data ownership (no wrapper): the
			// decision of its cleanup is read here and attributed to the first such instance that loaded the table and
			// has not run this cleanup yet
			can, _ := payload[2].(bool)
			w.mu.Lock()
			if w.wrapped[uri] > 0 {
				w.wrapped[uri]--
				delete(w.asking, uri)
			} else if !w.closed {
				// candidates: first an instance its operator has dropped (all its objects are garbage), then a running one
				// whose level list no longer holds the table
				var pick *c09Inst
				if a, ok := w.asking[uri]; ok {
					// this cleanup asked a neighbour: the stub knows on whose behalf
					delete(w.asking, uri)
					if a >= 0 && a < len(w.insts) && w.insts[a].host != nil && !w.insts[a].crashed && w.insts[a].cleaned[uri] < w.insts[a].loadedCnt[uri] {
						pick = w.insts[a]
					}
				}
				for pass := 0; pass < 3 && pick == nil; pass++ {
					for _, x := range w.insts {
						if x.host == nil || x.crashed || x.cleaned[uri] >= x.loadedCnt[uri] {
							continue
						}
						// nobody was asked: the table's key groups lie inside the instance's own range, or no neighbour's
						// range overlaps them
						if sp, ok := x.loadedSpan[uri]; ok && pass < 2 {
							inside := x.lo <= sp[0] && sp[1] < x.hi
							overl := false
							for _, nr := range x.nbrRanges {
								overl = overl || (nr[0] <= sp[1] && sp[0] < nr[1])
							}
							if !inside && overl {
								continue
							}
						}
						switch pass {
						case 0:
							if x.alive || x.db != nil {
								continue
							}
						case 1:
							if !x.alive || x.db == nil || x.db.VerifLevels().IncludesTable(uri) {
								continue
							}
						}
						pick = x
						break
					}
				}
				if pick != nil {
					pick.cleaned[uri]++
					d := "keep"
					if can {
						d = "del"
					}
					w.cleanups = append(w.cleanups, fmt.Sprintf("%d:%s:l:%s", pick.idx, w.canon(uri), d))
				}
			}
			w.mu.Unlock()
			return
		}
		if kind != "created" || !strings.HasPrefix(uri, w.prefix) {
			return
		}
		c := w.canon(uri)
		w.mu.Lock()
		idx := strings.TrimPrefix(c[:strings.Index(c, "/")], "i")
		if ci, ok := w.creator[uri]; ok {
			idx = strconv.Itoa(ci)
		}
		if !w.closed {
			w.cleanups = append(w.cleanups, fmt.Sprintf("%s:%s:c:del", idx, c))
		}
		w.mu.Unlock()
	case "dkv.compact.begin", "dkv.compact.idle":
		w.mu.Lock()
		if x := w.instOf(payload[0]); x != nil {
			w.compacting[x.idx] = label == "dkv.compact.begin"
		}
		w.mu.Unlock()
	case "dkv.flush.done":
		w.mu.Lock()
		defer w.mu.Unlock()
		if db, ok := payload[0].(*dkv.DB); ok {
			w.trackDB(db)
		}
		x := w.instOf(payload[0])
		if x == nil {
			return
		}
		for _, ti := range x.db.VerifLevels().VerifLayout()[0] {
			if !x.known[ti.URI] {
				x.known[ti.URI] = true
				w.creator[ti.URI] = x.idx
				w.tblSig[w.canon(ti.URI)] = w.sig(w.canon(ti.URI))
				x.events = append(x.events, "f+"+w.tblString(ti.URI, ti.StartKey, ti.EndKey))
			}
		}
	case "dkv.compact.commit":
		w.mu.Lock()
		defer w.mu.Unlock()
		if len(payload) >= 2 {
			if cs, ok := payload[1].(*sst.ChangeSet); ok {
				_, added, _ := cs.VerifChangeSet()
				w.track(added...)
			}
		}
		if w.isLate(payload[0]) && len(payload) >= 2 {
			// the held compaction of the released instance was let go: these are the files it wrote late
			if cs, ok := payload[1].(*sst.ChangeSet); ok {
				_, added, _ := cs.VerifChangeSet()
				for _, t := range added {
					d := t.Document()
					w.lateTables = append(w.lateTables, w.tblString(d.URI, d.StartKey, d.EndKey))
				}
			}
			return
		}
		x := w.instOf(payload[0])
		if x == nil || len(payload) < 2 {
			return
		}
		cs, ok := payload[1].(*sst.ChangeSet)
		if !ok {
			return
		}
		_, added, removed := cs.VerifChangeSet()
		var rm, add []string
		for _, t := range removed {
			// a flushed table that a compaction already running took away before the flush's own hook point saw it in
			// level 0 (the compaction queue is not ordered after that hook): its flush is reported here, first
			if d := t.Document(); !x.known[d.URI] {
				x.known[d.URI] = true
				w.creator[d.URI] = x.idx
				w.tblSig[w.canon(d.URI)] = w.sig(w.canon(d.URI))
				x.events = append(x.events, "f+"+w.tblString(d.URI, d.StartKey, d.EndKey))
			}
			rm = append(rm, w.canon(t.URI()))
		}
		for _, t := range added {
			d := t.Document()
			x.known[d.URI] = true
			w.creator[d.URI] = x.idx
			w.tblSig[w.canon(d.URI)] = w.sig(w.canon(d.URI))
			add = append(add, w.tblString(d.URI, d.StartKey, d.EndKey))
		}
		x.events = append(x.events, "c-"+c09Join(rm)+"+"+c09Join(add))
	}
}

func c09Join(xs []string) string {
	if len(xs) == 0 {
		return "-"
	}
	return strings.Join(xs, ",")
}

// ---- documents on disk ----

type c09DocTable struct {
	StartKey []byte
	EndKey   []byte
	URI      string
}
type c09DocCkpt struct {
	ID   uint64 `json:"id"`
	WALs []struct {
		URI string `json:"uri"`
	} `json:"wals"`
	Levels [][]c09DocTable `json:"levels"`
}
type c09Doc struct {
	Checkpoints []c09DocCkpt `json:"checkpoints"`
}

func (w *c09World) readDoc(writer int) (*c09Doc, error) {
	data, err := w.store.read(fmt.Sprintf("i%d/checkpoints", w.dirOf(writer)))
	if err != nil {
		return nil, err
	}
	d := &c09Doc{}
	if err := json.Unmarshal(data, d); err != nil {
		return nil, err
	}
	return d, nil
}

func (w *c09World) docEntry(writer int, id uint64) (tables []string, uris []string, wals []string, ok bool) {
	if owner, seen := w.docOwner[w.dirOf(writer)]; !seen || owner != writer {
		return nil, nil, nil, false // no document of this writer (never saved, or replaced by a later instance)
	}
	return w.docEntryAny(writer, id)
}

// docEntryAny reads the entry from whatever document is in the writer's directory now
func (w *c09World) docEntryAny(writer int, id uint64) (tables []string, uris []string, wals []string, ok bool) {
	d, err := w.readDoc(writer)
	if err != nil {
		return nil, nil, nil, false
	}
	for _, c := range d.Checkpoints {
		if c.ID != id {
			continue
		}
		for _, l := range c.Levels {
			for _, t := range l {
				tables = append(tables, w.tblString(t.URI, t.StartKey, t.EndKey))
				uris = append(uris, w.canon(t.URI))
			}
		}
		for _, h := range c.WALs {
			wals = append(wals, w.canon(h.URI))
		}
		sort.Strings(tables)
		sort.Strings(uris)
		sort.Strings(wals)
		return tables, uris, wals, true
	}
	return nil, nil, nil, false
}

func (w *c09World) listFiles() []string {
	var out []string
	for _, p := range w.store.list() {
		if strings.HasSuffix(p, ".sst") || strings.HasSuffix(p, ".wal") {
			out = append(out, p)
		}
	}
	sort.Strings(out)
	return out
}

func c09Minus(a, b []string) []string {
	in := map[string]bool{}
	for _, x := range b {
		in[x] = true
	}
	var out []string
	for _, x := range a {
		if !in[x] {
			out = append(out, x)
		}
	}
	return out
}

// ---- forced garbage collection ----

type c09Sentinel struct {
	pad [64]byte
	p   *int
}

//go:noinline
func c09PlantSentinel(done chan struct{}) {
	s := &c09Sentinel{p: new(int)}
	runtime.AddCleanup(s, func(ch chan struct{}) { close(ch) }, done)
}

// c09ForceGC collects every unreachable table object and waits until their cleanups have RUN.
// runtime.GC returns when the cycle (sweep included) is complete, i.e. when every cleanup of an object found
// unreachable in it is QUEUED; the cleanups run later on the runtime's own goroutine, which takes the queue batch by
// batch (no order inside a batch) and lags behind under load. So one forced collection plus one sentinel proves
// nothing about the others of the same batch. The wait therefore is:
//   - rounds of (plant a sentinel; runtime.GC; wait for the sentinel's cleanup): when the sentinel of round r+1 has
//     run, every cleanup queued up to round r has run (its batch was finished before the next one was taken);
//   - until `quiet` consecutive rounds brought no table-cleanup event at all (objects kept alive for a cycle by a
//     finalizer on their path - files - are found in a later round and reset the count);
//   - and until the census agrees: every tracked table object whose weak pointer has been cleared (the collector has
//     found it unreachable) has delivered its cleanup event.
//
// The upper bound's expiry is an explicit output (`blocked`).
func (w *c09World) forceGC(timeout time.Duration) bool {
	const quiet = 3
	deadline := time.Now().Add(timeout)
	events := func() int {
		w.mu.Lock()
		defer w.mu.Unlock()
		return w.cleanEvents
	}
	last, calm := events(), 0
	for calm < quiet || w.due() > 0 {
		done := make(chan struct{})
		c09PlantSentinel(done)
		runtime.GC()
		left := time.Until(deadline)
		if left <= 0 {
			return false
		}
		select {
		case <-done:
		case <-time.After(left):
			return false
		}
		runtime.Gosched()
		if n := events(); n != last {
			last, calm = n, 0
		} else {
			calm++
			if calm >= quiet && w.due() > 0 {
				// collected, cleanup queued but not run yet: give the cleanup goroutine the processor
				time.Sleep(time.Millisecond)
			}
		}
	}
	return true
}

// finishAsk: a NeedsTable call parked between its two reads holds the instance's database on its stack; when the
// instance goes away (its process dies, or its operator drops it) the call ends with it - it is let go and its answer
// discarded, so that nothing of the harness keeps the instance's objects reachable
func (w *c09World) finishAsk(db *dkv.DB) {
	w.mu.Lock()
	if db == nil || w.askResume == nil || w.askDB != db {
		w.mu.Unlock()
		return
	}
	resume, answer := w.askResume, w.askAnswer
	w.askResume, w.askDB = nil, nil
	w.mu.Unlock()
	close(resume)
	select {
	case <-answer:
	case <-time.After(5 * time.Second):
	}
}

// scanStuck: a held scan iterator one of whose tables has lost its file cannot be read to its end
func (w *c09World) scanStuck(sn *c09Snap) bool {
	if sn == nil || sn.next == nil {
		return false
	}
	for _, u := range sn.uris {
		if !w.store.exists(u) {
			return true
		}
	}
	return false
}

// track registers table objects for the census (w.mu held)
func (w *c09World) track(ts ...*sst.Table) {
	if w.tracked == nil {
		w.tracked = map[weak.Pointer[sst.Table]]string{}
	}
	for _, t := range ts {
		if t != nil {
			w.tracked[weak.Make(t)] = t.URI()
		}
	}
}

func (w *c09World) trackDB(db *dkv.DB) {
	if db == nil {
		return
	}
	for _, l := range db.VerifLevels().VerifLayout() {
		for _, ti := range l {
			w.track(ti.Table)
		}
	}
}

// due counts tracked table objects the collector has found unreachable whose cleanup event has not arrived yet
func (w *c09World) due() int {
	w.mu.Lock()
	defer w.mu.Unlock()
	gone := map[string]int{}
	for wp, uri := range w.tracked {
		if wp.Value() == nil {
			gone[uri]++
		}
	}
	n := 0
	for uri, c := range gone {
		if c > w.cleanByURI[uri] {
			n += c - w.cleanByURI[uri]
		}
	}
	return n
}

// c09ForceGC: the same wait without a world (between cases)
func c09ForceGC(timeout time.Duration) bool {
	w := &c09World{}
	return w.forceGC(timeout)
}

func c09ParseRange(s string) (int, int) {
	p := strings.SplitN(s, "-", 2)
	if len(p) != 2 {
		return 0, 0
	}
	a, _ := strconv.Atoi(p[0])
	b, _ := strconv.Atoi(p[1])
	return a, b
}

func c09Field(fs []string, key string) string {
	for _, f := range fs {
		if strings.HasPrefix(f, key+"=") {
			return f[len(key)+1:]
		}
	}
	return ""
}

var c09Seq int
var c09Mu sync.Mutex

func c09Guard(f func() string) (out string) {
	defer func() {
		if r := recover(); r != nil {
			msg := fmt.Sprint(r)
			if os.Getenv("VERIF_DEBUG") != "" {
				fmt.Fprintf(os.Stderr, "panic: %v\n%s\n", r, debug.Stack())
			}
			if strings.Contains(msg, "retained checkpoints") {
				out = "panic"
			} else {
				if len(msg) > 120 {
					msg = msg[:120]
				}
				out = "panic " + strings.ReplaceAll(msg, " ", "_")
			}
		}
	}()
	return f()
}

func runC09(c lib.Case) []string {
	c09Mu.Lock()
	defer c09Mu.Unlock()
	hf := strings.Fields(c.Header)
	mem, _ := strconv.Atoi(c09Field(hf, "mem"))
	if mem == 0 {
		mem = 150
	}
	l0, _ := strconv.Atoi(c09Field(hf, "l0"))
	if l0 == 0 {
		l0 = 2
	}
	slog.SetDefault(slog.New(slog.NewTextHandler(io.Discard, nil)))
	// collections happen only at the trace's gc points: the automatic collector is switched off for the case, and
	// the garbage of earlier cases is collected (and its cleanups drained) before this one starts
	defer debug.SetGCPercent(debug.SetGCPercent(-1))
	c09ForceGC(5 * time.Second)
	c09Seq++
	dir := fmt.Sprintf("c09-%d", c09Seq)
	w := &c09World{nextID: 1, docOwner: map[int]int{}, creator: map[string]int{}, walSig: map[c09Handle]map[string]string{},
		hFiles: map[c09Handle][2][]string{}, tblSig: map[string]string{}, compacting: map[int]bool{}}
	if c09Field(hf, "fs") == "local" {
		base := os.TempDir()
		if st, err := os.Stat("/dev/shm"); err == nil && st.IsDir() {
			base = "/dev/shm"
		}
		tmp, err := os.MkdirTemp(base, "verif-"+dir+"-")
		if err != nil {
			panic(err)
		}
		w.store, w.prefix = &c09DirStore{dir: tmp}, tmp+"/"
	} else {
		w.store, w.prefix = &c09MemStore{root: storage.NewMemoryFilesystem().WithWorkingDir(dir)}, "memory:///"+dir+"/"
	}
	defer w.store.close()
	verifhook.Set(w.hook)
	defer func() {
		runtime.KeepAlive(w.grave)
		if w.gateRel != nil {
			close(w.gateRel)
			w.gateRel = nil
		}
		for _, x := range w.insts {
			for _, sn := range x.snaps {
				c09DrainScan(sn) // best effort: frees the coroutines of scans still held at the end of the case
			}
		}
		w.mu.Lock()
		if w.askResume != nil {
			close(w.askResume)
			w.askResume, w.askDB = nil, nil
		}
		w.closed = true
		// the cleanup argument of every loaded table reaches this world through the ownership wrapper: cut the
		// world's references to the instances, or their tables would stay reachable from their own cleanups forever
		w.insts, w.grave, w.stuck = nil, nil, nil
		w.mu.Unlock()
		verifhook.Set(nil)
	}()

	inst := func(s string) *c09Inst {
		i, err := strconv.Atoi(s)
		if err != nil || i < 0 || i >= len(w.insts) {
			return nil
		}
		return w.insts[i]
	}
	out := make([]string, 0, len(c.Ops))
	for _, op := range c.Ops {
		f := strings.Fields(op)
		if len(f) == 0 {
			out = append(out, "bad-op")
			continue
		}
		switch f[0] {
		case "open": // open <lo-hi> gen=<g> nbrs=<lo-hi,...|-> from=<w>:<id>|none
			if len(f) < 5 {
				out = append(out, "bad-op")
				continue
			}
			lo, hi := c09ParseRange(f[1])
			gen, _ := strconv.Atoi(c09Field(f, "gen"))
			var ranges []partitioning.KeyGroupRange
			var ops []proto.Operator
			idx := len(w.insts)
			if nb := c09Field(f, "nbrs"); nb != "-" && nb != "" {
				for _, r := range strings.Split(nb, ",") {
					a, b := c09ParseRange(r)
					kr := partitioning.KeyGroupRange{Start: a, End: b}
					ranges = append(ranges, kr)
					ops = append(ops, &c09Neighbor{w: w, gen: gen, r: kr, asker: idx})
				}
			}
			var handles []recovery.CheckpointHandle
			from := c09Field(f, "from")
			var fromWs []int
			var fromID uint64
			if from != "none" && from != "" {
				p := strings.SplitN(from, ":", 2)
				if len(p) != 2 {
					out = append(out, "bad-op")
					continue
				}
				fromID, _ = strconv.ParseUint(p[1], 10, 64)
				okAll := true
				for _, ws := range strings.Split(p[0], "+") {
					wi, _ := strconv.Atoi(ws)
					fromWs = append(fromWs, wi)
					if _, _, _, ok := w.docEntry(wi, fromID); !ok {
						okAll = false
					}
					handles = append(handles, recovery.CheckpointHandle{CheckpointID: fromID, URI: w.prefix + fmt.Sprintf("i%d/checkpoints", w.dirOf(wi))})
				}
				if !okAll {
					out = append(out, "no-such-checkpoint")
					continue
				}
				// restoring from a checkpoint that already lost a file panics in a background compaction of the code
				// under test (or fails the WAL replay): such a restore is not attempted
				lost := false
				for _, wi := range fromWs {
					_, uris, wals, _ := w.docEntry(wi, fromID)
					for _, u := range append(uris, wals...) {
						if !w.store.exists(u) {
							lost = true
						}
					}
				}
				if lost {
					out = append(out, "files-missing")
					continue
				}
			}
			x := &c09Inst{idx: idx, gen: gen, lo: lo, hi: hi, alive: true, mode: "truthful", known: map[string]bool{}, dir: idx}
			if ds := c09Field(f, "dir"); ds != "" {
				x.dir, _ = strconv.Atoi(ds)
			}
			var preTabs []string // the hook must know the loaded tables before the replay's first flush commits
			for _, wi := range fromWs {
				ts, _, _, _ := w.docEntry(wi, fromID)
				for _, t := range ts {
					preTabs = append(preTabs, w.prefix+t[:strings.Index(t, ":")])
				}
			}
			res := c09Guard(func() string {
				if c09Field(f, "host") == "op" && w.store.location() != "" && len(handles) > 0 && x.dir == idx {
					// a real operator.Operator deployed through HandleDeploy serves this instance
					all := append([]partitioning.KeyGroupRange{{Start: lo, End: hi}}, ranges...)
					sort.Slice(all, func(a, b int) bool { return all[a].Start < all[b].Start })
					var nodes []*jobpb.NodeIdentity
					for _, r := range all {
						id := fmt.Sprintf("nb%d-%d", r.Start, r.End)
						if r.Start == lo && r.End == hi {
							id = fmt.Sprintf("i%d", idx)
						}
						nodes = append(nodes, &jobpb.NodeIdentity{Id: id, Host: id})
					}
					host := &c09Host{gen: gen, idx: idx}
					x.host = host
					op := operator.NewOperator(operator.NewOperatorParams{ID: fmt.Sprintf("i%d", idx), Host: "h",
						NeighborOperatorFactory: func(sender string, node *jobpb.NodeIdentity) proto.Operator {
							a, b := c09ParseRange(strings.TrimPrefix(node.Id, "nb"))
							return &c09Neighbor{w: w, gen: host.gen, r: partitioning.KeyGroupRange{Start: a, End: b}, asker: host.idx}
						}})
					req := &workerpb.DeployOperatorRequest{Operators: nodes, SourceRunnerIds: []string{"src"}, KeyGroupCount: 8,
						StorageLocation: w.store.location()}
					for _, wi := range fromWs {
						req.Checkpoints = append(req.Checkpoints, &snapshotpb.OperatorCheckpoint{CheckpointId: fromID,
							OperatorId: fmt.Sprintf("i%d", wi), DkvFileUri: w.prefix + fmt.Sprintf("i%d/checkpoints", w.dirOf(wi))})
						x.srcDocs = append(x.srcDocs, fmt.Sprintf("i%d/checkpoints", w.dirOf(wi)))
					}
					x.loadedSet, x.cleaned, x.loadedCnt, x.loadedSpan = map[string]bool{}, map[string]int{}, map[string]int{}, map[string][2]int{}
					for _, t := range preTabs {
						x.known[t] = true
						x.loadedSet[t] = true
						x.loadedCnt[t]++
					}
					for _, wi := range fromWs {
						ts, _, _, _ := w.docEntry(wi, fromID)
						for _, t := range ts {
							if p := strings.Split(t, ":"); len(p) == 3 {
								a, _ := strconv.Atoi(p[1])
								b, _ := strconv.Atoi(p[2])
								x.loadedSpan[w.prefix+p[0]] = [2]int{a, b}
							}
						}
					}
					for _, r := range ranges {
						x.nbrRanges = append(x.nbrRanges, [2]int{r.Start, r.End})
					}
					w.mu.Lock()
					x.op, x.deployReq = op, req
					w.insts = append(w.insts, x)
					w.mu.Unlock()
					if err := op.HandleDeploy(context.Background(), req, nil); err != nil {
						return "err " + strings.ReplaceAll(err.Error(), " ", "_")
					}
					w.mu.Lock()
					x.db = op.VerifDB()
					w.mu.Unlock()
					if x.db == nil {
						return "err no-db"
					}
					if err := x.db.WaitOnTasks(); err != nil {
						return "err " + strings.ReplaceAll(err.Error(), " ", "_")
					}
					return ""
				}
				own := &c09Ownership{w: w, idx: idx, inner: operator.VerifNewOperatorPartitionWithNeighbors(partitioning.KeyGroupRange{Start: lo, End: hi}, ranges, ops)}
				db := dkv.New(dkv.DBOptions{FileSystem: &c09GateFS{FileSystem: w.store.instFS(fmt.Sprintf("i%d", x.dir)), w: w, idx: idx}, MemTableSize: uint64(mem), TargetFileSize: 96,
					L0TableNumCompactionTrigger: l0, DataOwnership: own})
				comp := db.VerifCompactor()
				comp.SmallestLevelSize = 1
				comp.MaxSizeAmplificationPercent = 25
				for _, t := range preTabs {
					x.known[t] = true
				}
				w.mu.Lock()
				x.db = db
				w.insts = append(w.insts, x)
				w.mu.Unlock()
				if err := db.Start(handles); err != nil {
					return "err " + strings.ReplaceAll(err.Error(), " ", "_")
				}
				done := make(chan error, 1)
				go func() { done <- db.WaitOnTasks() }()
				select {
				case err := <-done:
					if err != nil {
						return "err " + strings.ReplaceAll(err.Error(), " ", "_")
					}
				case <-time.After(10 * time.Second):
					return "timeout"
				}
				return ""
			})
			if res != "" {
				w.mu.Lock()
				x.alive, x.db, x.op = false, nil, nil
				if n := len(w.insts); n > 0 && w.insts[n-1] == x {
					w.insts = w.insts[:n-1]
				}
				w.mu.Unlock()
				out = append(out, res)
				continue
			}
			// what was loaded is what the documents say (the WAL replay may already flush and compact in the background)
			var tabs []string
			for _, wi := range fromWs {
				ts, _, _, _ := w.docEntry(wi, fromID)
				tabs = append(tabs, ts...)
			}
			for _, t := range tabs {
				x.known[w.prefix+t[:strings.Index(t, ":")]] = true
			}
			sort.Strings(tabs)
			var wals []string
			if len(handles) >= 1 {
				for _, wi := range fromWs {
					_, _, ws, _ := w.docEntry(wi, fromID)
					wals = append(wals, ws...)
				}
				sort.Strings(wals)
				x.ckptIDs = []uint64{fromID}
				// the job's retained set is the job's: a restart drops nothing (jobdrop / jobabandon do)
			}
			w.mu.Lock()
			ev := x.events
			x.events = nil
			w.mu.Unlock()
			evs := "-"
			if len(ev) > 0 {
				evs = strings.Join(ev, ";")
			}
			out = append(out, fmt.Sprintf("ok %d tables=%s wals=%s ev=%s", idx, c09Join(tabs), c09Join(wals), evs))
		case "gate": // gate <i> : the next table file a compaction of <i> creates is held until `ungate`
			x := inst(f[1])
			if x == nil || !x.alive || x.db == nil {
				out = append(out, "not-alive")
				continue
			}
			w.mu.Lock()
			w.gateArmed, w.gateInst = true, x.idx
			w.gateHit, w.gateRel = make(chan struct{}), make(chan struct{})
			w.mu.Unlock()
			out = append(out, "ok")
		case "ungate": // the held compaction goes on: it saves its output files now
			if w.gateRel == nil {
				out = append(out, "no-gate")
				continue
			}
			close(w.gateRel)
			w.gateRel = nil
			wait := func(db *dkv.DB) {
				if db == nil {
					return
				}
				done := make(chan struct{})
				go func() {
					defer close(done)
					defer func() { recover() }()
					db.WaitOnTasks()
				}()
				select {
				case <-done:
				case <-time.After(10 * time.Second):
				}
			}
			wait(w.lateDB)
			for _, x := range w.insts {
				if x.alive {
					wait(x.db)
				}
			}
			w.mu.Lock()
			late := w.lateTables
			w.lateTables = nil
			li := w.lateInst
			w.mu.Unlock()
			out = append(out, fmt.Sprintf("late %d %s", li, c09Join(late)))
		case "writehold", "writeflush":
			// writehold <i> <n> <seed> <klo>-<khi>: write until the armed compaction is held while creating its output
			// writeflush ...: write and wait for the flushes only (a compaction may be queued behind a held one)
			x := inst(f[1])
			if len(f) < 5 {
				out = append(out, "bad-op")
				continue
			}
			if x == nil || !x.alive || x.db == nil {
				out = append(out, "not-alive")
				continue
			}
			n, _ := strconv.Atoi(f[2])
			seed, _ := strconv.ParseUint(f[3], 10, 64)
			klo, khi := c09ParseRange(f[4])
			r := lib.NewRng(seed)
			res := c09Guard(func() string {
				for k := 0; k < n; k++ {
					kg := r.Range(klo, khi)
					key := []byte{byte(kg >> 8), byte(kg), 0x00, byte(r.Intn(6)), byte(r.Intn(4))}
					x.db.Put(key, r.Bytes(r.Range(8, 30)))
				}
				if f[0] == "writehold" {
					select {
					case <-w.gateHit:
					case <-time.After(5 * time.Second):
						return "not-parked"
					}
				}
				// all sealed memtables flushed
				for k := 0; k < 500 && x.db.VerifMemtableCount() > 1; k++ {
					time.Sleep(10 * time.Millisecond)
				}
				if x.db.VerifMemtableCount() > 1 {
					return "flush-timeout"
				}
				return ""
			})
			w.mu.Lock()
			ev := x.events
			x.events = nil
			w.mu.Unlock()
			if res != "" {
				out = append(out, res)
				continue
			}
			head := "ok "
			if f[0] == "writehold" {
				head = "parked "
			}
			if len(ev) == 0 {
				out = append(out, head+"-")
			} else {
				out = append(out, head+strings.Join(ev, ";"))
			}
		case "write": // write <i> <n> <seed> <klo>-<khi>
			x := inst(f[1])
			if len(f) < 5 {
				out = append(out, "bad-op")
				continue
			}
			if x == nil || !x.alive || x.db == nil {
				out = append(out, "not-alive")
				continue
			}
			// a compaction that reads a deleted table panics in a background goroutine of the code under test:
			// an instance whose level list already lost a file is not written to any more
			broken := false
			for _, l := range x.db.VerifLevels().VerifLayout() {
				for _, ti := range l {
					if !w.store.exists(w.canon(ti.URI)) {
						broken = true
					}
				}
			}
			if broken {
				out = append(out, "files-missing")
				continue
			}
			n, _ := strconv.Atoi(f[2])
			seed, _ := strconv.ParseUint(f[3], 10, 64)
			klo, khi := c09ParseRange(f[4])
			r := lib.NewRng(seed)
			res := c09Guard(func() string {
				for k := 0; k < n; k++ {
					kg := r.Range(klo, khi)
					// key group, the schema byte of keyed state (an operator's timer store scans the timer schema), suffix
					key := []byte{byte(kg >> 8), byte(kg), 0x00, byte(r.Intn(6)), byte(r.Intn(4))}
					if r.Chance(1, 6) {
						x.db.Delete(key)
					} else {
						x.db.Put(key, r.Bytes(r.Range(8, 30)))
					}
				}
				done := make(chan error, 1)
				go func() { done <- x.db.WaitOnTasks() }()
				select {
				case err := <-done:
					if err != nil {
						return "err " + strings.ReplaceAll(err.Error(), " ", "_")
					}
				case <-time.After(10 * time.Second):
					return "timeout"
				}
				return ""
			})
			w.mu.Lock()
			ev := x.events
			x.events = nil
			w.mu.Unlock()
			if res != "" {
				out = append(out, res)
				continue
			}
			if len(ev) == 0 {
				out = append(out, "ok -")
			} else {
				out = append(out, "ok "+strings.Join(ev, ";"))
			}
		case "ckpt": // ckpt <i> <id>
			x := inst(f[1])
			if len(f) < 3 {
				out = append(out, "bad-op")
				continue
			}
			if x == nil || !x.alive || x.db == nil {
				out = append(out, "not-alive")
				continue
			}
			id, _ := strconv.ParseUint(f[2], 10, 64)
			res := c09Guard(func() string {
				wait := x.db.Checkpoint(id)
				type r struct {
					h   recovery.CheckpointHandle
					err error
				}
				ch := make(chan r, 1)
				go func() { h, err := wait(); ch <- r{h, err} }()
				select {
				case v := <-ch:
					if v.err != nil {
						return "err " + strings.ReplaceAll(v.err.Error(), " ", "_")
					}
				case <-time.After(10 * time.Second):
					return "timeout"
				}
				return ""
			})
			if res != "" {
				out = append(out, res)
				continue
			}
			w.docOwner[x.dir] = x.idx
			_, uris, wals, ok := w.docEntry(x.idx, id)
			if !ok {
				out = append(out, "no-doc-entry")
				continue
			}
			sigs := map[string]string{}
			for _, wl := range wals {
				sigs[wl] = w.sig(wl)
			}
			w.walSig[c09Handle{x.idx, id}] = sigs
			w.hFiles[c09Handle{x.idx, id}] = [2][]string{uris, wals}
			x.ckptIDs = append(x.ckptIDs, id)
			if id >= w.nextID {
				w.nextID = id + 1
			}
			w.retained = append(w.retained, c09Handle{x.idx, id})
			out = append(out, fmt.Sprintf("ok wal=%s tables=%s", c09Join(wals), c09Join(uris)))
		case "jobdrop": // jobdrop <k>
			k, _ := strconv.ParseUint(f[1], 10, 64)
			if k >= w.nextID {
				out = append(out, "disabled")
				continue
			}
			var keep []c09Handle
			for _, h := range w.retained {
				if h.id > k {
					keep = append(keep, h)
				}
			}
			w.retained = keep
			out = append(out, "ok")
		case "jobabandon": // jobabandon <id> : the job gives up checkpoint <id> (never completed / rolled back past)
			id, _ := strconv.ParseUint(f[1], 10, 64)
			var keep []c09Handle
			for _, h := range w.retained {
				if h.id != id {
					keep = append(keep, h)
				}
			}
			w.retained = keep
			out = append(out, "ok")
		case "retain": // retain <i> <id,id>
			x := inst(f[1])
			if len(f) < 3 {
				out = append(out, "bad-op")
				continue
			}
			if x == nil || !x.alive || x.db == nil {
				out = append(out, "not-alive")
				continue
			}
			var ids []uint64
			for _, s := range strings.Split(f[2], ",") {
				if v, err := strconv.ParseUint(s, 10, 64); err == nil {
					ids = append(ids, v)
				}
			}
			// environment assumption: the job asks an operator to drop only checkpoints it no longer retains
			still := false
			var keptIDs []uint64
			var newest uint64
			for _, v := range ids {
				newest = max(newest, v)
			}
			for _, cid := range x.ckptIDs {
				// RetainOnly keeps listed checkpoints and those newer than every listed one
				kept := cid > newest
				for _, v := range ids {
					if v == cid {
						kept = true
					}
				}
				if kept {
					keptIDs = append(keptIDs, cid)
					continue
				}
				for _, h := range w.retained {
					if h.id == cid {
						still = true
					}
				}
			}
			if still {
				out = append(out, "job-still-retains")
				continue
			}
			before := w.listFiles()
			res := c09Guard(func() string {
				if err := x.db.UpdateRetainedCheckpoints(ids); err != nil {
					return "err " + strings.ReplaceAll(err.Error(), " ", "_")
				}
				return ""
			})
			if res != "" {
				out = append(out, res)
				continue
			}
			x.ckptIDs = keptIDs
			w.docOwner[x.dir] = x.idx
			out = append(out, "ok deleted="+c09Join(c09Minus(before, w.listFiles())))
		case "snap":
			x := inst(f[1])
			if x == nil || !x.alive || x.db == nil {
				out = append(out, "not-alive")
				continue
			}
			sn := &c09Snap{}
			lost := false
			for _, l := range x.db.VerifLevels().VerifLayout() {
				for _, ti := range l {
					sn.uris = append(sn.uris, w.canon(ti.URI))
					if !w.store.exists(w.canon(ti.URI)) {
						lost = true
					}
				}
			}
			if lost && len(f) >= 3 {
				// reading a level list that already lost a file (D25/D34) panics in the code under test
				out = append(out, "files-missing")
				continue
			}
			if len(f) >= 3 && f[2] == "scan" {
				// a scan over everything, advanced by one entry and then held: what it pins is whatever the real
				// iterators hold (the model says: the tables of the level list at the call)
				sn.err = new(error)
				sn.ll = x.db.VerifLevels() // the same tables the iterators hold; keeps them pinned if the scan gets stuck
				res := c09Guard(func() string {
					sn.next, sn.stop = iter.Pull(x.db.ScanPrefix(nil, sn.err))
					sn.next()
					return ""
				})
				if res != "" {
					out = append(out, res)
					continue
				}
			} else {
				sn.ll = x.db.VerifLevels()
			}
			x.snaps = append([]*c09Snap{sn}, x.snaps...)
			out = append(out, "ok")
		case "unsnap": // unsnap <i> <k>
			x := inst(f[1])
			if x == nil || !x.alive || len(f) < 3 {
				out = append(out, "not-alive")
				continue
			}
			k, _ := strconv.Atoi(f[2])
			res := "ok"
			if k >= 0 && k < len(x.snaps) {
				lost := false
				for _, u := range x.snaps[k].uris {
					if !w.store.exists(u) {
						lost = true
					}
				}
				if sn := x.snaps[k]; sn.next != nil && lost {
					res = "files-missing" // another instance deleted a pinned file (D25/D34): the scan is abandoned
					w.mu.Lock()
					w.stuck = append(w.stuck, sn)
					w.mu.Unlock()
				} else if sn.next != nil {
					// the held scan is read to its end: every table it pinned must still be readable
					r := c09Guard(func() string {
						for {
							if _, ok := sn.next(); !ok {
								break
							}
						}
						sn.stop()
						if *sn.err != nil {
							return "scan-err " + strings.ReplaceAll((*sn.err).Error(), " ", "_")
						}
						return ""
					})
					if r != "" {
						res = r
					}
				}
				// a fresh slice: nothing may keep pointing at the dropped level list
				var ns []*c09Snap
				for j, s := range x.snaps {
					if j != k {
						ns = append(ns, s)
					}
				}
				x.snaps = ns
			}
			out = append(out, res)
		case "crash", "release":
			x := inst(f[1])
			if x == nil || !x.alive {
				out = append(out, "not-alive")
				continue
			}
			w.finishAsk(x.db)
			if f[0] == "release" && x.db != nil && x.op == nil {
				// an in-process redeploy does what Operator.HandleDeploy does: it closes the previous database before the
				// directory can be reopened. Close waits for the instance's background tasks; if one of them is held by
				// the harness' gate, the gate is opened so that Close can finish (with a Close that does not wait —
				// the code before f9820ca — the task stays held and lands later: D63).
				db := x.db
				closed := make(chan struct{})
				go func() {
					defer close(closed)
					defer func() { recover() }()
					db.Close()
				}()
				select {
				case <-closed:
				case <-time.After(300 * time.Millisecond):
					w.mu.Lock()
					if w.gateRel != nil && w.gateInst == x.idx {
						close(w.gateRel)
						w.gateRel = nil
					}
					w.mu.Unlock()
					select {
					case <-closed:
					case <-time.After(10 * time.Second):
					}
				}
			}
			w.mu.Lock()
			x.alive = false
			if f[0] == "crash" {
				x.crashed = true
				// the process died: nothing of it is ever collected
				w.grave = append(w.grave, x.db)
				for _, s := range x.snaps {
					_ = s
				}
			} else {
				for _, sn := range x.snaps {
					if w.scanStuck(sn) {
						w.stuck = append(w.stuck, sn)
					} else {
						c09DrainScan(sn)
					}
				}
				x.snaps = nil
				x.op = nil
				if w.gateRel != nil && w.gateInst == x.idx {
					// its compaction is still held: the dropped instance has a background write in flight (D63)
					w.lateDB, w.lateInst = x.db, x.idx
				}
			}
			x.db = nil
			w.mu.Unlock()
			out = append(out, "ok")
		case "redeploy": // redeploy <i> gen=<g> from=<w+w>:<id> : a second, successful HandleDeploy on the operator serving <i>
			// (same assembly, new generation): the real entry point closes the database it had, reopens the operator's
			// directory from the given handles and replaces o.db; the instance it had is dropped inside the living process
			x := inst(f[1])
			if x == nil || !x.alive || x.db == nil || x.op == nil || x.host == nil {
				out = append(out, "not-alive")
				continue
			}
			p := strings.SplitN(c09Field(f, "from"), ":", 2)
			if len(p) != 2 {
				out = append(out, "bad-op")
				continue
			}
			newGen, _ := strconv.Atoi(c09Field(f, "gen"))
			fromID, _ := strconv.ParseUint(p[1], 10, 64)
			var fromWs []int
			okAll, lost := true, false
			for _, ws := range strings.Split(p[0], "+") {
				wi, _ := strconv.Atoi(ws)
				fromWs = append(fromWs, wi)
				_, uris, wals, ok := w.docEntry(wi, fromID)
				if !ok {
					okAll = false
				}
				for _, u := range append(uris, wals...) {
					if !w.store.exists(u) {
						lost = true
					}
				}
			}
			if !okAll {
				out = append(out, "no-such-checkpoint")
				continue
			}
			if lost {
				out = append(out, "files-missing")
				continue
			}
			w.finishAsk(x.db)
			idx := len(w.insts)
			nx := &c09Inst{idx: idx, gen: newGen, lo: x.lo, hi: x.hi, alive: true, mode: "truthful", known: map[string]bool{}, dir: x.dir,
				op: x.op, host: x.host, loadedSet: map[string]bool{}, cleaned: map[string]int{}, loadedCnt: map[string]int{}, loadedSpan: map[string][2]int{},
				nbrRanges: x.nbrRanges}
			req := &workerpb.DeployOperatorRequest{Operators: x.deployReq.Operators, SourceRunnerIds: x.deployReq.SourceRunnerIds,
				KeyGroupCount: x.deployReq.KeyGroupCount, StorageLocation: x.deployReq.StorageLocation}
			var tabs, wals []string
			for _, wi := range fromWs {
				req.Checkpoints = append(req.Checkpoints, &snapshotpb.OperatorCheckpoint{CheckpointId: fromID,
					OperatorId: fmt.Sprintf("i%d", wi), DkvFileUri: w.prefix + fmt.Sprintf("i%d/checkpoints", w.dirOf(wi))})
				nx.srcDocs = append(nx.srcDocs, fmt.Sprintf("i%d/checkpoints", w.dirOf(wi)))
				ts, _, ws, _ := w.docEntry(wi, fromID)
				tabs = append(tabs, ts...)
				wals = append(wals, ws...)
				for _, t := range ts {
					nx.known[w.prefix+t[:strings.Index(t, ":")]] = true
					nx.loadedSet[w.prefix+t[:strings.Index(t, ":")]] = true
					nx.loadedCnt[w.prefix+t[:strings.Index(t, ":")]]++
					if p := strings.Split(t, ":"); len(p) == 3 {
						a, _ := strconv.Atoi(p[1])
						b, _ := strconv.Atoi(p[2])
						nx.loadedSpan[w.prefix+p[0]] = [2]int{a, b}
					}
				}
			}
			nx.deployReq = req
			oldGen, oldIdx := x.host.gen, x.host.idx
			w.mu.Lock()
			x.host.gen, x.host.idx = newGen, idx
			w.insts = append(w.insts, nx)
			w.mu.Unlock()
			res := c09Guard(func() string {
				if err := x.op.HandleDeploy(context.Background(), req, nil); err != nil {
					return "err " + strings.ReplaceAll(err.Error(), " ", "_")
				}
				return ""
			})
			if res != "" {
				w.mu.Lock()
				x.host.gen, x.host.idx = oldGen, oldIdx
				w.insts = w.insts[:idx]
				w.mu.Unlock()
				out = append(out, res)
				continue
			}
			w.mu.Lock()
			// the instance the operator had is dropped inside the living process
			snaps := x.snaps
			x.snaps, x.alive, x.db, x.op = nil, false, nil, nil
			nx.db = nx.op.VerifDB()
			nx.ckptIDs = []uint64{fromID}
			w.mu.Unlock()
			for _, sn := range snaps {
				if w.scanStuck(sn) {
					w.mu.Lock()
					w.stuck = append(w.stuck, sn)
					w.mu.Unlock()
				} else {
					c09DrainScan(sn)
				}
			}
			if nx.db == nil {
				out = append(out, "err no-db")
				continue
			}
			nx.db.WaitOnTasks()
			sort.Strings(tabs)
			sort.Strings(wals)
			w.mu.Lock()
			ev := nx.events
			nx.events = nil
			w.mu.Unlock()
			evs := "-"
			if len(ev) > 0 {
				evs = strings.Join(ev, ";")
			}
			out = append(out, fmt.Sprintf("ok %d tables=%s wals=%s ev=%s", idx, c09Join(tabs), c09Join(wals), evs))
		case "redeployfail": // redeployfail <i> : the operator serving <i> is deployed again, and the load fails
			x := inst(f[1])
			if x == nil || !x.alive || x.db == nil {
				out = append(out, "not-alive")
				continue
			}
			if x.op == nil {
				out = append(out, "failed") // not served by a real operator: nothing to redeploy
				continue
			}
			for _, d := range x.srcDocs {
				w.store.hide(d, true)
			}
			res := c09Guard(func() string {
				if err := x.op.HandleDeploy(context.Background(), x.deployReq, nil); err != nil {
					return "failed"
				}
				return "deployed"
			})
			for _, d := range x.srcDocs {
				w.store.hide(d, false)
			}
			if strings.HasPrefix(res, "panic") {
				res = "failed"
			}
			out = append(out, res)
		case "mode": // mode <i> truthful|err|hang|slow
			x := inst(f[1])
			if x == nil || len(f) < 3 {
				out = append(out, "bad-op")
				continue
			}
			w.mu.Lock()
			x.mode = f[2]
			w.mu.Unlock()
			out = append(out, "ok")
		case "gc":
			before := w.listFiles()
			// every table object the instances hold now is in the census (objects created and dropped between two
			// observations are registered by the flush and compaction hooks)
			w.mu.Lock()
			dbs := make([]*dkv.DB, 0, len(w.insts))
			for _, x := range w.insts {
				if x.db != nil {
					dbs = append(dbs, x.db)
				}
			}
			w.mu.Unlock()
			for _, db := range dbs {
				func() {
					defer func() { recover() }()
					w.mu.Lock()
					defer w.mu.Unlock()
					w.trackDB(db)
				}()
			}
			ok := w.forceGC(12 * time.Second)
			w.mu.Lock()
			cl := w.cleanups
			w.cleanups = nil
			w.mu.Unlock()
			sort.Strings(cl)
			res := "ok"
			if !ok {
				res = "blocked"
			}
			out = append(out, fmt.Sprintf("%s cleanups=%s deleted=%s", res, c09Join(cl), c09Join(c09Minus(before, w.listFiles()))))
		case "asksplit": // asksplit <i> new|old|dead : start DB.NeedsTable and hold it between its two reads
			x := inst(f[1])
			if len(f) < 3 {
				out = append(out, "bad-op")
				continue
			}
			if x == nil || !x.alive || x.db == nil {
				out = append(out, "not-alive")
				continue
			}
			if w.askResume != nil {
				out = append(out, "ask-pending")
				continue
			}
			live := map[string]bool{}
			var liveL []string
			for _, l := range x.db.VerifLevels().VerifLayout() {
				for _, ti := range l {
					live[ti.URI] = true
					liveL = append(liveL, ti.URI)
				}
			}
			sort.Strings(liveL)
			uri := ""
			switch f[2] {
			case "new":
				if len(liveL) > 0 {
					uri = liveL[len(liveL)-1]
				}
			case "old":
				if len(liveL) > 0 {
					uri = liveL[0]
				}
			default:
				var dead []string
				for u := range x.known {
					if !live[u] {
						dead = append(dead, u)
					}
				}
				sort.Strings(dead)
				if len(dead) > 0 {
					uri = dead[len(dead)-1]
				}
			}
			if uri == "" {
				out = append(out, "none")
				continue
			}
			w.mu.Lock()
			w.askArmed, w.askDB = true, x.db
			w.askParked, w.askResume, w.askAnswer = make(chan struct{}), make(chan struct{}), make(chan bool, 1)
			parked, answer, db := w.askParked, w.askAnswer, x.db
			w.mu.Unlock()
			go func() { answer <- db.NeedsTable(uri) }()
			select {
			case a := <-answer:
				w.mu.Lock()
				w.askArmed, w.askDB, w.askResume = false, nil, nil
				w.mu.Unlock()
				out = append(out, fmt.Sprintf("done %s %s", w.canon(uri), map[bool]string{true: "yes", false: "no"}[a]))
			case <-parked:
				out = append(out, "parked "+w.canon(uri))
			case <-time.After(5 * time.Second):
				out = append(out, "timeout")
			}
		case "askresume":
			if w.askResume == nil {
				out = append(out, "no-ask")
				continue
			}
			w.mu.Lock()
			resume, answer := w.askResume, w.askAnswer
			w.askResume, w.askDB = nil, nil
			w.mu.Unlock()
			close(resume)
			select {
			case a := <-answer:
				out = append(out, map[bool]string{true: "yes", false: "no"}[a])
			case <-time.After(5 * time.Second):
				out = append(out, "timeout")
			}
		case "files":
			out = append(out, "ok "+c09Join(w.listFiles()))
		case "missing":
			// the statement of no_needed_file_deleted evaluated on the implementation: every file referenced by a
			// job-retained checkpoint document entry or by the level list of a running instance exists
			have := map[string]bool{}
			for _, p := range w.listFiles() {
				have[p] = true
			}
			miss := map[string]bool{}
			for _, h := range w.retained {
				_, uris, wals, ok := w.docEntryAny(h.writer, h.id)
				if !ok {
					// the document entry is gone (D50); the files it listed when it was written are still what the
					// retained checkpoint needs
					miss[fmt.Sprintf("doc:i%d:%d", h.writer, h.id)] = true
					uris, wals = w.hFiles[h][0], w.hFiles[h][1]
				}
				for _, u := range uris {
					if want, known := w.tblSig[u]; !have[u] || (known && w.sig(u) != want) {
						miss[u] = true
					}
				}
				// a WAL of the handle must exist with the content it had when the checkpoint was taken (a later WAL
				// written under the same name is another file)
				sigs := w.walSig[h]
				for _, u := range wals {
					if want, known := sigs[u]; !have[u] || (known && w.sig(u) != want) {
						miss[u] = true
					}
				}
			}
			for _, x := range w.insts {
				if !x.alive || x.db == nil {
					continue
				}
				for _, l := range x.db.VerifLevels().VerifLayout() {
					for _, ti := range l {
						u := w.canon(ti.URI)
						if want, known := w.tblSig[u]; !have[u] || (known && w.sig(u) != want) {
							miss[u] = true // gone, or overwritten by another table since it was written
						}
					}
				}
			}
			if len(miss) == 0 {
				out = append(out, "ok")
			} else {
				var ms []string
				for m := range miss {
					ms = append(ms, m)
				}
				sort.Strings(ms)
				out = append(out, "missing "+strings.Join(ms, ","))
			}
		default:
			out = append(out, "bad-op")
		}
	}
	return out
}

// ---- generator ----

type c09GenInst struct {
	dir    int
	hosted bool
	alive  bool
	gen    int
	lo, hi int
	ckpts  []int
	snaps  int
}

type c09Gen struct {
	r      *lib.Rng
	ops    []string
	insts  []*c09GenInst
	nextID int
	floor  int
	// handles the job retains: checkpoint id → writers
	handles map[int][]int
}

func (g *c09Gen) emit(format string, a ...any) { g.ops = append(g.ops, fmt.Sprintf(format, a...)) }

func (g *c09Gen) open(lo, hi, gen int, nbrs []string, from string, fromID int, host bool, dir int) int {
	idx := len(g.insts)
	if dir < 0 {
		dir = idx
	}
	x := &c09GenInst{alive: true, gen: gen, lo: lo, hi: hi, hosted: host, dir: dir}
	if from != "none" {
		x.ckpts = []int{fromID}
	}
	g.insts = append(g.insts, x)
	switch {
	case host:
		g.emit("open %d-%d gen=%d nbrs=%s from=%s host=op", lo, hi, gen, c09Join(nbrs), from)
	case dir != idx:
		g.emit("open %d-%d gen=%d nbrs=%s from=%s dir=%d", lo, hi, gen, c09Join(nbrs), from, dir)
	default:
		g.emit("open %d-%d gen=%d nbrs=%s from=%s", lo, hi, gen, c09Join(nbrs), from)
	}
	return idx
}

func (g *c09Gen) write(i int) {
	x := g.insts[i]
	klo, khi := x.lo, x.hi-1
	if g.r.Chance(1, 3) && khi > klo {
		// a narrow burst: tables that cover only part of the range
		a := g.r.Range(klo, khi)
		b := g.r.Range(a, khi)
		klo, khi = a, b
	}
	g.emit("write %d %d %d %d-%d", i, g.r.Range(3, 14), g.r.Intn(1000000), klo, khi)
}

func (g *c09Gen) ckpt(i int) {
	id := g.nextID
	g.nextID++
	g.insts[i].ckpts = append(g.insts[i].ckpts, id)
	g.handles[id] = append(g.handles[id], i)
	g.emit("ckpt %d %d", i, id)
}

// ckptAll takes one job checkpoint on every running instance of the generation
func (g *c09Gen) ckptAll(gen int) int {
	id := g.nextID
	g.nextID++
	for i, x := range g.insts {
		if x.alive && x.gen == gen {
			x.ckpts = append(x.ckpts, id)
			g.handles[id] = append(g.handles[id], i)
			g.emit("ckpt %d %d", i, id)
		}
	}
	return id
}

// abandonNewer: before the assembly restarts from checkpoint `id` the job gives up every newer checkpoint it has
// handles of (they were taken by some operators only and never completed)
func (g *c09Gen) abandonNewer(id int) {
	var ids []int
	for k := range g.handles {
		if k > id {
			ids = append(ids, k)
		}
	}
	sort.Ints(ids)
	for _, k := range ids {
		delete(g.handles, k)
		g.emit("jobabandon %d", k)
	}
}

// completeIDs: the job checkpoints every member of generation `gen` has taken, oldest first
func (g *c09Gen) completeIDs(gen int) []int {
	var out []int
	for id, writers := range g.handles {
		okAll := true
		for i, x := range g.insts {
			if x.gen == gen {
				found := false
				for _, wi := range writers {
					if wi == i {
						found = true
					}
				}
				if !found {
					okAll = false
				}
			}
		}
		if okAll {
			out = append(out, id)
		}
	}
	sort.Ints(out)
	return out
}

func (g *c09Gen) jobdrop(k int) {
	if k <= g.floor || k >= g.nextID {
		return
	}
	g.floor = k
	for id := range g.handles {
		if id <= k {
			delete(g.handles, id)
		}
	}
	g.emit("jobdrop %d", k)
}

// retain tells the instance which of its checkpoints the job still retains (never an empty list)
func (g *c09Gen) retain(i int) {
	x := g.insts[i]
	var keep []string
	var kept []int
	for _, id := range x.ckpts {
		if id > g.floor {
			keep = append(keep, strconv.Itoa(id))
			kept = append(kept, id)
		}
	}
	if len(keep) == 0 || len(keep) == len(x.ckpts) {
		return
	}
	x.ckpts = kept
	if len(keep) > 1 && g.r.Chance(1, 4) {
		// the job's list may lag behind: the operator's newest checkpoint is still being completed
		keep = keep[:len(keep)-1]
	}
	g.emit("retain %d %s", i, strings.Join(keep, ","))
}

func (g *c09Gen) alive() []int {
	var out []int
	for i, x := range g.insts {
		if x.alive {
			out = append(out, i)
		}
	}
	return out
}

func (g *c09Gen) observe() {
	g.emit("gc")
	g.emit("files")
	g.emit("missing")
}

// life of the running instances: writes, checkpoints, retention, snapshots, collections
func (g *c09Gen) churn(steps int, gen int) {
	for s := 0; s < steps; s++ {
		al := g.alive()
		if len(al) == 0 {
			return
		}
		i := lib.Pick(g.r, al)
		x := g.insts[i]
		if x.hosted && g.r.Chance(1, 6) {
			g.emit("redeployfail %d", i)
			continue
		}
		switch v := g.r.Intn(100); {
		case v < 34:
			g.write(i)
		case v < 50:
			if len(al) > 1 && g.r.Chance(2, 3) {
				g.ckptAll(gen)
			} else {
				g.ckpt(i)
			}
		case v < 60:
			if g.nextID-1 > g.floor+1 {
				g.jobdrop(g.r.Range(g.floor+1, g.nextID-2))
			}
		case v < 74:
			g.retain(i)
		case v < 80:
			x.snaps++
			if g.r.Bool() {
				g.emit("snap %d scan", i)
			} else {
				g.emit("snap %d", i)
			}
		case v < 86:
			if x.snaps > 0 {
				k := g.r.Intn(x.snaps)
				x.snaps--
				g.emit("unsnap %d %d", i, k)
			}
		case v < 90:
			if len(al) > 1 {
				g.emit("mode %d %s", i, lib.Pick(g.r, []string{"truthful", "err", "hang", "truthful"}))
			}
		case v < 95:
			// a neighbour's NeedsTable call overlapping checkpoints, compactions and retention updates
			g.emit("asksplit %d %s", i, lib.Pick(g.r, []string{"new", "new", "old", "dead"}))
			for k := g.r.Range(1, 3); k > 0; k-- {
				switch g.r.Intn(4) {
				case 0:
					g.ckpt(i)
				case 1:
					g.retain(i)
				default:
					g.write(i)
				}
			}
			g.emit("askresume")
		default:
			g.observe()
		}
	}
}

func c09Ranges(n int) [][2]int {
	switch n {
	case 1:
		return [][2]int{{0, 8}}
	case 2:
		return [][2]int{{0, 4}, {4, 8}}
	case 3:
		return [][2]int{{0, 3}, {3, 6}, {6, 8}}
	}
	return [][2]int{{0, 2}, {2, 4}, {4, 6}, {6, 8}}
}

// c09Even: the ranges are the even split of 8 key groups that partitioning.NewKeySpace gives an operator assembly
func c09Even(rs [][2]int) bool {
	n := len(rs)
	if n == 0 || 8%n != 0 {
		return false
	}
	for k, r := range rs {
		if r[0] != k*8/n || r[1] != (k+1)*8/n {
			return false
		}
	}
	return true
}

func (g *c09Gen) nbrsOf(rs [][2]int, k int) []string {
	var out []string
	for j, r := range rs {
		if j != k {
			out = append(out, fmt.Sprintf("%d-%d", r[0], r[1]))
		}
	}
	return out
}

// newestHandles returns the newest job checkpoint every member of the generation has taken (the one a restart uses)
func (g *c09Gen) newestComplete(gen int) (int, []int) {
	best := -1
	var ws []int
	for id, writers := range g.handles {
		okAll := true
		for i, x := range g.insts {
			if x.gen == gen {
				found := false
				for _, wi := range writers {
					if wi == i {
						found = true
					}
				}
				if !found {
					okAll = false
				}
			}
		}
		if okAll && id > best {
			best = id
			ws = writers
		}
	}
	sorted := append([]int(nil), ws...)
	sort.Ints(sorted)
	return best, sorted
}

func genC09(r *lib.Rng, tier string) lib.Case {
	g := &c09Gen{r: r, nextID: 1, handles: map[int][]int{}}
	header := fmt.Sprintf("M C09 mem=%d l0=%d", lib.Pick(r, []int{120, 160, 240}), lib.Pick(r, []int{1, 2, 2, 3}))
	// some cases run on a directory store with real operator.Operators serving part of the instances
	local := r.Chance(1, 4)
	if local {
		header += " fs=local"
	}
	gens := r.Range(1, 3)
	if tier == "thorough" {
		gens = r.Range(1, 4)
	}
	// generation 0 starts empty
	n := lib.Pick(r, []int{1, 1, 2})
	rs := c09Ranges(n)
	for k, rg := range rs {
		g.open(rg[0], rg[1], 0, g.nbrsOf(rs, k), "none", 0, false, -1)
	}
	// scale-out followed at once by a scale-in: the operators of the wider assembly checkpoint while they still list the
	// tables they inherited, so the composite checkpoint of the narrower one lists the same table once per handle
	quietGen, forceIn := false, false
	for gen := 0; gen < gens; gen++ {
		if quietGen && gen < gens-1 {
			if r.Bool() {
				g.write(lib.Pick(r, g.alive()))
			}
			quietGen, forceIn = false, true
		} else {
			for _, i := range g.alive() {
				g.write(i)
				if r.Bool() {
					g.write(i)
				}
			}
			g.churn(r.Range(6, 22), gen)
		}
		if gen == gens-1 {
			break
		}
		// the job checkpoints, then the assembly goes away and a new one restores from the newest complete checkpoint
		g.ckptAll(gen)
		id, writers := g.newestComplete(gen)
		if id < 0 {
			break
		}
		// D68's situation (generated only while D68 is listed as an open finding of C09): the job rolls back to an OLDER
		// complete checkpoint and keeps retaining the newer complete ones; every new instance gets a directory of its own
		// (the same-directory sibling is C08's D67) and the processes of the old assembly are gone.
		// EXCLUDED from generated cases otherwise: a restart from a retained checkpoint that is not the newest one.
		rollback := false
		if cids := g.completeIDs(gen); c09D68Listed && len(cids) > 1 && r.Chance(1, 6) {
			id = cids[r.Intn(len(cids)-1)]
			writers = append([]int(nil), g.handles[id]...)
			sort.Ints(writers)
			rollback = true
			// what was never completed is given up; the complete newer checkpoints stay retained
			for k := range g.handles {
				if k > id {
					complete := false
					for _, c := range cids {
						if c == k {
							complete = true
						}
					}
					if !complete {
						delete(g.handles, k)
						g.emit("jobabandon %d", k)
					}
				}
			}
		} else {
			g.abandonNewer(id)
		}
		// a live redeploy of the same assembly: every operator process survives and is deployed again, from its own
		// checkpoint, in its own directory. Operators served by a real operator.Operator go through the real entry point
		// (a second, successful HandleDeploy); the others are released and reopened like HandleDeploy does it.
		anyHosted := false
		for _, i := range g.alive() {
			anyHosted = anyHosted || g.insts[i].hosted
		}
		if al := g.alive(); !rollback && len(al) == len(writers) && (r.Chance(1, 5) || (anyHosted && r.Chance(1, 2))) {
			same := true
			for k, i := range al {
				same = same && writers[k] == i
			}
			if same {
				if !c09D50Listed {
					g.jobdrop(id - 1)
				}
				var rs [][2]int
				for _, i := range al {
					rs = append(rs, [2]int{g.insts[i].lo, g.insts[i].hi})
				}
				for k, i := range al {
					x := g.insts[i]
					x.alive = false
					nx := &c09GenInst{alive: true, gen: gen + 1, lo: x.lo, hi: x.hi, hosted: x.hosted, dir: x.dir, ckpts: []int{id}}
					if x.hosted {
						g.emit("redeploy %d gen=%d from=%d:%d", i, gen+1, i, id)
					} else {
						g.emit("release %d", i)
						g.emit("open %d-%d gen=%d nbrs=%s from=%d:%d dir=%d", x.lo, x.hi, gen+1, c09Join(g.nbrsOf(rs, k)), i, id, x.dir)
					}
					g.insts = append(g.insts, nx)
					if r.Chance(1, 3) {
						g.observe()
					}
				}
				continue
			}
		}
		inProcess := r.Chance(1, 4) && !rollback
		for _, i := range g.alive() {
			if g.insts[i].hosted {
				inProcess = false // an operator keeps its database; only whole processes of operators go away here
			}
		}
		for _, i := range g.alive() {
			g.insts[i].alive = false
			if inProcess {
				g.emit("release %d", i)
			} else {
				g.emit("crash %d", i)
			}
		}
		// the next assembly: any parallelism; every new instance restores from the checkpoints of the writers whose
		// key-group range overlaps its own (scale-out shares tables, scale-in merges documents)
		m := lib.Pick(r, []int{1, 1, 2, 2, 3, 4})
		if len(writers) > 1 && r.Chance(1, 2) {
			m = len(writers)
		}
		if forceIn && len(writers) > 1 {
			m = lib.Pick(r, []int{1, 1, len(writers) - 1})
			if m < 1 {
				m = 1
			}
		}
		forceIn = false
		if len(writers) == 1 && m > 1 && !rollback && r.Chance(1, 2) {
			quietGen = true
		}
		nrs := c09Ranges(m)
		if m == len(writers) && len(writers) > 1 {
			nrs = nil
			for _, wi := range writers {
				nrs = append(nrs, [2]int{g.insts[wi].lo, g.insts[wi].hi})
			}
		}
		dirTaken := map[int]bool{}
		for k, rg := range nrs {
			var src []string
			var srcIdx []int
			for _, wi := range writers {
				if g.insts[wi].lo < rg[1] && rg[0] < g.insts[wi].hi {
					src = append(src, strconv.Itoa(wi))
					srcIdx = append(srcIdx, wi)
				}
			}
			if r.Chance(1, 3) {
				// handles arrive in the job's order, not sorted
				r2 := r.Intn(len(src))
				src[0], src[r2] = src[r2], src[0]
				srcIdx[0], srcIdx[r2] = srcIdx[r2], srcIdx[0]
			}
			host := local && (m == 1 || m == 2 || m == 4) && m == len(nrs) && c09Even(nrs) && r.Chance(1, 2) && !rollback
			// the operator keeps its id: the new instance lives in the directory of one of the instances it restores from
			dir := -1
			if !host && !rollback && r.Chance(1, 3) {
				d := g.insts[lib.Pick(r, srcIdx)].dir
				if !dirTaken[d] {
					dir = d
					dirTaken[d] = true
					// the new instance's first save replaces the directory's checkpoints document by its own list, which
					// starts at the restored checkpoint, so older retained checkpoints of the directory lose their entry
					// (finding D50). While D50 is not listed in known_findings.json the generated jobs keep no older
					// checkpoint at such a restore (EXCLUDED from generated cases until then: a same-directory restore while
					// the job retains an older checkpoint of that directory); once it is listed the situation is generated
					// and reported as KNOWN-FINDING D50, and the witness below runs as a fixed case.
					if !c09D50Listed {
						g.jobdrop(id - 1)
					}
				}
			}
			g.open(rg[0], rg[1], gen+1, g.nbrsOf(nrs, k), fmt.Sprintf("%s:%d", strings.Join(src, "+"), id), id, host, dir)
			if r.Chance(1, 3) {
				g.observe()
			}
		}
	}
	// wind down: drop everything but the newest checkpoint, compact, collect
	for _, i := range g.alive() {
		g.write(i)
	}
	last := g.ckptAll(gens - 1)
	g.jobdrop(last - 1)
	for _, i := range g.alive() {
		g.retain(i)
	}
	g.observe()
	return lib.Case{Header: header, Ops: g.ops}
}

// c09D50Listed: known_findings.json lists D50 as an open finding of C09 (set in propC09 from the -verif flag)
var c09D50Listed bool

// c09D68Listed: likewise for D68 (restart from a retained checkpoint that is not the newest retained one)
var c09D68Listed bool

func c09FindingListed(id string) bool {
	dir := "/verif"
	if f := flag.Lookup("verif"); f != nil {
		dir = f.Value.String()
	}
	for _, k := range lib.LoadKnown(dir) {
		if k.Property == "C09" && k.ID == id && k.Status == "open" {
			return true
		}
	}
	return false
}

func c09Fixed(tier string) []lib.Case {
	cases := c09FixedAll()
	if c09D50Listed {
		// D50 witness: the instance reopened in its predecessor's directory saves a document that starts at the
		// restored checkpoint 2; the entry of checkpoint 1, which the job still retains, is gone
		cases = append(cases, lib.Case{Header: "M C09 mem=120 l0=2", Tags: []string{"witness-D50"}, Ops: []string{
			"open 0-8 gen=0 nbrs=- from=none", "write 0 8 1 0-7", "ckpt 0 1", "write 0 8 2 0-7", "ckpt 0 2", "crash 0",
			"open 0-8 gen=1 nbrs=- from=0:2 dir=0", "missing", "write 1 8 3 0-7", "ckpt 1 3", "missing"}})
	}
	if c09D68Listed {
		// D68 witness: the job retains checkpoints 1 and 2 of instance 0; the operator is restarted in a directory of its
		// own from the OLDER one; the restarted instance compacts the restored tables away, the job drops checkpoint 1
		// only, the retention update (job's list: 2,3) drops the restored checkpoint and the collection deletes the
		// tables checkpoint 2 still references
		cases = append(cases, lib.Case{Header: "M C09 mem=120 l0=1", Tags: []string{"witness-D68"}, Ops: []string{
			"open 0-8 gen=0 nbrs=- from=none", "write 0 12 1 0-7", "ckpt 0 1", "ckpt 0 2", "crash 0",
			"open 0-8 gen=1 nbrs=- from=0:1", "write 1 14 2 0-7", "write 1 14 3 0-7", "ckpt 1 3", "jobdrop 1", "retain 1 2,3",
			"gc", "files", "missing"}})
		// D68 as the C01 corpus trace sstables-file-not-found-fresh-only reaches it: instance 1 restores from checkpoint
		// 2 and takes checkpoint 3 (which still lists the tables loaded from 0), dies; checkpoint 3 is published late, so
		// instance 2 restores from 2 again; it takes 5, the job's retention list is [3], instance 2 drops the restored
		// checkpoint and deletes the tables checkpoint 3 references; the next restore, from 3, finds them gone
		cases = append(cases, lib.Case{Header: "M C09 mem=120 l0=1", Tags: []string{"witness-D68"}, Ops: []string{
			"open 0-8 gen=0 nbrs=- from=none", "write 0 12 1 0-7", "ckpt 0 1", "ckpt 0 2", "jobdrop 1", "retain 0 2", "crash 0",
			"open 0-8 gen=1 nbrs=- from=0:2", "ckpt 1 3", "crash 1",
			"open 0-8 gen=2 nbrs=- from=0:2", "write 2 14 3 0-7", "write 2 14 4 0-7", "ckpt 2 5", "jobdrop 2", "retain 2 3",
			"gc", "files", "missing", "open 0-8 gen=3 nbrs=- from=1:3"}})
	}
	if tier == "thorough" {
		// a neighbour that needs the table answers only after 6.5 s: with the unchanged code the cleanup waits and
		// keeps the file (any deadline in ExclusivelyOwnsTable shorter than that turns the silence into a "no")
		cases = append(cases, lib.Case{Header: "M C09 mem=120 l0=1", Tags: []string{"slow-neighbour"}, Ops: []string{
			"open 0-8 gen=0 nbrs=- from=none", "write 0 12 7 0-7", "ckpt 0 1", "crash 0",
			"open 0-4 gen=1 nbrs=4-8 from=0:1", "open 4-8 gen=1 nbrs=0-4 from=0:1",
			"write 1 14 8 0-3", "write 1 14 9 0-3", "ckpt 1 2", "ckpt 2 2", "jobdrop 1", "retain 1 2", "mode 2 slow",
			"gc", "files", "missing"}})
	}
	return cases
}

func c09FixedAll() []lib.Case {
	return []lib.Case{
		// scale-in in the surviving operator's own directory: it restores from its own checkpoint (WAL 1) and from
		// the checkpoint of an operator that joined later (WAL 0); the WALs of the restored checkpoint and of the next
		// one must survive the retention update that drops the restored checkpoint
		{Header: "M C09 mem=120 l0=2", Tags: []string{"scale-in-own-directory"}, Ops: []string{
			"open 0-4 gen=0 nbrs=4-8 from=none", "open 4-8 gen=0 nbrs=0-4 from=none",
			"write 0 8 1 0-3", "ckpt 0 1", "write 0 8 2 0-3", "write 1 8 3 4-7", "ckpt 0 2", "ckpt 1 2", "jobdrop 1", "retain 0 2",
			"crash 0", "crash 1", "open 0-8 gen=1 nbrs=- from=0+1:2 dir=0", "write 2 8 4 0-7", "files", "missing", "ckpt 2 3",
			"files", "missing", "jobdrop 2", "retain 2 3", "gc", "files", "missing"}},
		// a real operator.Operator serves instance 2; its redeploy fails (the checkpoints document is unreadable at
		// that moment) and the neighbour's cleanup asks it through HandleNeedsTable afterwards: it must still answer
		// for the instance it had
		{Header: "M C09 mem=120 l0=1 fs=local", Tags: []string{"redeploy-window"}, Ops: []string{
			"open 0-8 gen=0 nbrs=- from=none", "write 0 12 7 0-7", "ckpt 0 1", "crash 0",
			"open 0-4 gen=1 nbrs=4-8 from=0:1", "open 4-8 gen=1 nbrs=0-4 from=0:1 host=op", "redeployfail 2",
			"write 1 14 8 0-3", "write 1 14 9 0-3", "ckpt 1 2", "ckpt 2 2", "jobdrop 1", "retain 1 2", "gc", "files", "missing",
			"redeployfail 2", "retain 2 2", "gc", "missing"}},
		// D9 (repaired): a neighbour that cannot be asked must mean keep. Instance 0 writes tables spanning all key
		// groups and dies; 1 and 2 restore from it; 2 is unavailable when 1 has compacted the shared tables away.
		{Header: "M C09 mem=120 l0=1", Tags: []string{"regress-D9"}, Ops: []string{
			"open 0-8 gen=0 nbrs=- from=none", "write 0 12 7 0-7", "ckpt 0 1", "crash 0",
			"open 0-4 gen=1 nbrs=4-8 from=0:1", "open 4-8 gen=1 nbrs=0-4 from=0:1",
			"write 1 14 8 0-3", "write 1 14 9 0-3", "ckpt 1 2", "ckpt 2 2", "jobdrop 1", "retain 1 2", "mode 2 err", "gc", "files", "missing",
			"mode 2 hang", "write 1 14 10 0-3", "gc", "missing"}},
		// D24 (repaired): after its own checkpoint and the retention update the neighbour still needs the shared table
		{Header: "M C09 mem=120 l0=1", Tags: []string{"regress-D24"}, Ops: []string{
			"open 0-8 gen=0 nbrs=- from=none", "write 0 12 7 0-7", "ckpt 0 1", "crash 0",
			"open 0-4 gen=1 nbrs=4-8 from=0:1", "open 4-8 gen=1 nbrs=0-4 from=0:1",
			"write 1 14 8 0-3", "write 1 14 9 0-3", "ckpt 1 2", "ckpt 2 2", "jobdrop 1", "retain 2 2", "retain 1 2", "gc", "files", "missing"}},
		// a second, successful HandleDeploy on the same operator.Operator (the real entry point of an in-process
		// redeploy: Close, reopen the same directory from the operator's own newest checkpoint, replace o.db): the
		// instance the operator had is garbage afterwards and its table objects delete their files (D25, reached here
		// through Operator.HandleDeploy itself)
		{Header: "M C09 mem=120 l0=1 fs=local", Tags: []string{"redeploy-real"}, Ops: []string{
			"open 0-8 gen=0 nbrs=- from=none", "write 0 12 7 0-7", "ckpt 0 1", "crash 0",
			"open 0-8 gen=1 nbrs=- from=0:1 host=op", "write 1 8 2 0-7", "ckpt 1 2", "jobdrop 1", "retain 1 2",
			"redeploy 1 gen=2 from=1:2", "files", "missing", "write 2 8 3 0-7", "ckpt 2 3", "gc", "files", "missing"}},
		// the same with a neighbour: operator 2 (key groups 4-8) is redeployed while instance 1 keeps running and asks it
		{Header: "M C09 mem=120 l0=1 fs=local", Tags: []string{"redeploy-real"}, Ops: []string{
			"open 0-8 gen=0 nbrs=- from=none", "write 0 12 7 0-7", "ckpt 0 1", "crash 0",
			"open 0-4 gen=1 nbrs=4-8 from=0:1", "open 4-8 gen=1 nbrs=0-4 from=0:1 host=op", "ckpt 1 2", "ckpt 2 2", "jobdrop 1",
			"redeploy 2 gen=1 from=2:2", "write 1 14 8 0-3", "write 1 14 9 0-3", "retain 1 2", "gc", "files", "missing",
			"retain 3 2", "gc", "files", "missing"}},
		// scale-out, then scale-in while both operators still list the tables they inherited: the composite checkpoint
		// lists every such table twice, the restored instance holds two objects per file; none of them may delete the
		// file while the other is referenced, and when both are garbage each runs its cleanup (seeded C09-5)
		{Header: "M C09 mem=120 l0=3", Tags: []string{"scale-out-scale-in-shared-table"}, Ops: []string{
			"open 0-8 gen=0 nbrs=- from=none", "write 0 12 1 0-7", "ckpt 0 1", "crash 0",
			"open 0-4 gen=1 nbrs=4-8 from=0:1", "open 4-8 gen=1 nbrs=0-4 from=0:1", "ckpt 1 2", "ckpt 2 2", "jobdrop 1", "crash 1", "crash 2",
			"open 0-8 gen=2 nbrs=- from=1+2:2", "gc", "files", "missing",
			"write 3 14 2 0-7", "write 3 14 3 0-7", "ckpt 3 3", "gc", "files", "missing", "jobdrop 2", "retain 3 3", "gc", "files", "missing"}},
		// D25 (open): in-process redeploy — the released instance's tables are deleted under the restored one
		{Header: "M C09 mem=120 l0=2", Tags: []string{"witness-D25"}, Ops: []string{
			"open 0-8 gen=0 nbrs=- from=none", "write 0 12 7 0-7", "ckpt 0 1", "release 0",
			"open 0-8 gen=1 nbrs=- from=0:1", "gc", "files", "missing"}},
		// the neighbour's answer must come from every checkpoint in its list: (b) its own checkpoint 2 still lists the
		// shared tables after the restored checkpoint was dropped and a compaction removed them from the live list
		{Header: "M C09 mem=120 l0=1", Tags: []string{"neighbour-own-checkpoint"}, Ops: []string{
			"open 0-8 gen=0 nbrs=- from=none", "write 0 12 7 0-7", "ckpt 0 1", "crash 0",
			"open 0-4 gen=1 nbrs=4-8 from=0:1", "open 4-8 gen=1 nbrs=0-4 from=0:1",
			"write 1 14 8 0-3", "write 1 14 9 0-3", "ckpt 1 2", "ckpt 2 2", "jobdrop 1", "retain 2 2",
			"write 2 14 11 4-7", "write 2 14 12 4-7", "retain 1 2", "gc", "files", "missing"}},
		// (a) the restored checkpoint is still in the neighbour's list (its retention update lags) although it has
		// compacted the shared tables away before its own checkpoint
		{Header: "M C09 mem=120 l0=1", Tags: []string{"neighbour-restored-checkpoint"}, Ops: []string{
			"open 0-8 gen=0 nbrs=- from=none", "write 0 12 7 0-7", "ckpt 0 1", "crash 0",
			"open 0-4 gen=1 nbrs=4-8 from=0:1", "open 4-8 gen=1 nbrs=0-4 from=0:1",
			"write 2 14 11 4-7", "write 2 14 12 4-7", "write 1 14 8 0-3", "write 1 14 9 0-3", "ckpt 1 2", "ckpt 2 2",
			"jobdrop 1", "retain 1 2", "gc", "files", "missing"}},
		// D46 (repaired): a checkpoint and a compaction between the two reads of NeedsTable
		{Header: "M C09 mem=120 l0=1", Tags: []string{"regress-D46"}, Ops: []string{
			"open 0-8 gen=0 nbrs=- from=none", "write 0 12 1 0-7", "ckpt 0 1", "write 0 12 2 0-7", "asksplit 0 new", "ckpt 0 2",
			"write 0 12 3 0-7", "write 0 12 4 0-7", "askresume", "asksplit 0 dead", "jobdrop 1", "retain 0 2", "askresume", "gc", "missing"}},
		// D63 (repaired, f9820ca): instance 0 is dropped inside the living process while one of its compactions is
		// held creating its output file; the redeploy closes it first, which waits for that compaction, so nothing of it
		// lands after instance 1 reopened the directory from checkpoint 1 and flushed tables under the same numbers.
		// (With a Close that does not wait, the compaction is let go at `ungate` and overwrites a live table.)
		{Header: "M C09 mem=120 l0=2", Tags: []string{"regress-D63"}, Ops: []string{
			"open 0-8 gen=0 nbrs=- from=none", "write 0 12 1 0-7", "ckpt 0 1", "gate 0", "writehold 0 9 2 0-7", "release 0",
			"open 0-8 gen=1 nbrs=- from=0:1 dir=0", "writeflush 1 12 3 0-7", "ungate", "missing"}},
		// a scan iterator held across compactions, a retention update and collections pins its tables
		{Header: "M C09 mem=120 l0=1", Tags: []string{"held-scan"}, Ops: []string{
			"open 0-8 gen=0 nbrs=- from=none", "write 0 12 1 0-7", "snap 0 scan", "write 0 12 2 0-7", "write 0 12 3 0-7", "gc", "files",
			"ckpt 0 1", "write 0 12 4 0-7", "gc", "files", "unsnap 0 0", "gc", "files", "missing"}},
		// plain life of one instance: compaction, checkpoints, retention, snapshot
		{Header: "M C09 mem=120 l0=1", Tags: []string{"single"}, Ops: []string{
			"open 0-8 gen=0 nbrs=- from=none", "write 0 12 1 0-7", "snap 0", "ckpt 0 1", "write 0 12 2 0-7", "gc", "files", "ckpt 0 2",
			"write 0 12 3 0-7", "jobdrop 1", "retain 0 2", "gc", "files", "missing", "unsnap 0 0", "gc", "files", "missing"}},
	}
}

func propC09() *lib.Prop {
	c09D50Listed = c09FindingListed("D50")
	c09D68Listed = c09FindingListed("D68")
	return &lib.Prop{
		ID:       "C09",
		Corr:     "Model/Files.lean transition system ↔ real dkv.DB instances (table cleanups under forced GC, CheckpointList retention, OperatorPartition.ExclusivelyOwnsTable with scripted/real neighbours)",
		Rule:     "trace validation: generated lives of 1–4 dkv instances over up to 4 assembly generations (writes with real flush/compaction change sets, checkpoints, job retention, snapshots, crashes, in-process releases, successful and failing second deploys of real operator.Operators through HandleDeploy, rollbacks to an older retained checkpoint, rescale-out sharing tables and scale-in merging several documents, neighbours that answer truthfully / fail / time out, NeedsTable calls held between their two reads while checkpoints, compactions and retention updates commit); at every gc point the set of cleanups that ran, their decisions and the files that disappeared are compared with the model, and the needed-set (job-retained document entries + live level lists) is evaluated on the real file store; non-trivial = some table cleanup ran in the trace",
		FeedImpl: true,
		NumCases: func(tier string) int {
			if tier == "thorough" {
				return 1000
			}
			return 160
		},
		Fixed: func(tier string) []lib.Case { return c09Fixed(tier) },
		Gen:   func(r *lib.Rng, tier string, i int) lib.Case { return genC09(r, tier) },
		Impl:  runC09,
		Nontrivial: func(c lib.Case, out []string) bool {
			for _, o := range out {
				if strings.Contains(o, "cleanups=") && !strings.Contains(o, "cleanups=- ") {
					return true
				}
			}
			return false
		},
		MObs: func(op string) bool {
			return strings.HasPrefix(op, "write ") || strings.HasPrefix(op, "open ") || strings.HasPrefix(op, "redeploy ") || strings.HasPrefix(op, "ckpt ") || strings.HasPrefix(op, "asksplit ") ||
				strings.HasPrefix(op, "writehold ") || strings.HasPrefix(op, "writeflush ") || op == "ungate"
		},
	}
}
