package main

// C01 — exactly-once keyed state across worker failure and recovery.
//
// Trace validation (T3) of the in-process mini-cluster of c01_cluster.go against Model/Pipeline.lean. A case is a
// schedule; every op returns the linearised events recorded since the previous op (plus a result token); the Lean
// driver replays each event as an action of `Rxn.Pipeline.step`, which must be enabled, and compares the
// property-level observations: the key state handed to every handler invocation, the cursors of every runner
// acknowledgement, the checkpoint and cursors every deployment restores.
//
// Header: M C01 <workers> <keyGroups> <splits> <batch> <readBatch> <keys> <rot>
// Ops:
//   feed <sp> <k,k,...>   make records available on split sp
//   wait                  wait until everything fed was read and handled in the current deployment  → Q | NQ
//   tick                  fire the job's checkpoint ticker
//   rack <j> / oack <j>   release the j-th parked runner / operator acknowledgement (none if nothing is parked)
//   pub <j>               let the j-th parked job-checkpoint file write complete and wait until it is current
//   ckpt <seed>           tick, then release all acknowledgements in a seeded order, then publish
//   pause / resume        stop / resume handing out records (to build up or drain in-flight data)
//   kill <w>              halt worker number w (no deregistration)
//   restart <fail>        replace halted workers, expire heartbeats, re-register everybody, wait for Running;
//                         fail>0: the fail-th Deploy request of the redeploy is answered "unreachable" once
//   restartpub <j>        like restart 0, but the j-th parked job-checkpoint write completes while the operators of the new
//                         assembly are deploying (between the job's choice of the checkpoint and the splitter's start)
//   killjob <n> <fresh>   the job process dies; a new job (worker count n) starts on the same storage;
//                         fresh=1: all workers die too and are replaced, fresh=0: the live workers re-register
//   probe                 feed one record per key, wait (the key states handed to these invocations are the final
//                         per-key states read back through the real state store)
//   end                   the driver evaluates `no_loss_no_dup` on the validated model state → ok

import (
	"bufio"
	"encoding/json"
	"fmt"
	"os"
	"regexp"
	"strconv"
	"strings"
	"sync"
	"time"

	"verif/harness/lib"
)

func init() { register("C01", propC01) }

var (
	c01StatsMu sync.Mutex
	c01Stats   = map[string]int{}
)

func c01Count(k string, n int) {
	c01StatsMu.Lock()
	c01Stats[k] += n
	c01StatsMu.Unlock()
}

func (w *c01World) boot() string {
	for i := 0; i < w.cfg.n; i++ {
		w.newWorker()
	}
	if !w.waitRunning(0) {
		return w.take() + " NOTRUNNING"
	}
	return w.take()
}

func (w *c01World) quiescent() bool {
	w.mu.Lock()
	defer w.mu.Unlock()
	for sp := range w.splits {
		if w.cur[sp] != len(w.splits[sp]) {
			return false
		}
	}
	return w.readDep == w.delivDep
}

func (w *c01World) wait() string {
	deadline := time.Now().Add(c01Grace)
	for time.Now().Before(deadline) {
		if w.quiescent() {
			return w.take() + " Q"
		}
		time.Sleep(200 * time.Microsecond)
	}
	return w.take() + " NQ"
}

func (w *c01World) tick() string {
	w.mu.Lock()
	clk := w.jclk
	w.mu.Unlock()
	done := make(chan int, 1)
	go func() {
		defer func() { recover() }()
		done <- clk.fire("checkpointing", true)
	}()
	select {
	case <-done:
	case <-time.After(2 * c01Grace):
	}
	return w.take()
}

// parked acknowledgements of a kind, in arrival order
func (w *c01World) parked(kind byte) []*c01Ack {
	var out []*c01Ack
	for _, a := range w.acks {
		if a.kind == kind {
			out = append(out, a)
		}
	}
	return out
}

// ackPossible: can an acknowledgement of this kind still arrive, judging by the job's own pending snapshot? Only used
// to skip a pointless wait; whether a missing acknowledgement is a stall is decided by the driver from the model.
func (w *c01World) ackPossible(kind byte) bool {
	w.mu.Lock()
	job, down := w.job, w.jobDown
	w.mu.Unlock()
	if job == nil || down {
		return false
	}
	_, ops, srs, ok := job.VerifStoreC15().VerifPendingC15()
	if !ok {
		return false
	}
	if kind == 'r' {
		return len(srs) > 0
	}
	return len(srs) == 0 && len(ops) > 0
}

func (w *c01World) releaseAck(kind byte, j int, grace time.Duration) bool {
	if grace > 0 && !w.ackPossible(kind) {
		grace = 20 * time.Millisecond
	}
	deadline := time.Now().Add(grace)
	for {
		w.mu.Lock()
		ps := w.parked(kind)
		if len(ps) > 0 {
			a := ps[j%len(ps)]
			for i, x := range w.acks {
				if x == a {
					w.acks = append(w.acks[:i], w.acks[i+1:]...)
					break
				}
			}
			w.mu.Unlock()
			a.release <- true
			select {
			case <-a.done:
			case <-time.After(c01Grace):
			}
			return true
		}
		w.mu.Unlock()
		if time.Now().After(deadline) {
			return false
		}
		time.Sleep(200 * time.Microsecond)
	}
}

func (w *c01World) publish(j int, grace time.Duration) bool {
	deadline := time.Now().Add(grace)
	for {
		w.mu.Lock()
		if len(w.writes) > 0 {
			pw := w.writes[j%len(w.writes)]
			for i, x := range w.writes {
				if x == pw {
					w.writes = append(w.writes[:i], w.writes[i+1:]...)
					break
				}
			}
			ok := pw.gen == w.jobGen && !w.jobDown
			job := w.job
			w.mu.Unlock()
			pw.release <- ok
			if !ok {
				return true
			}
			// the store makes the checkpoint current right after the write returned
			d2 := time.Now().Add(c01Grace)
			for time.Now().Before(d2) {
				// the newest published one is current; an older one (overlapping publication) is at least recorded
				if cur, has := job.VerifStoreC15().VerifCurrentIDC15(); has && cur >= pw.id {
					w.mu.Lock()
					if w.deployGate {
						w.deferPub = append(w.deferPub, fmt.Sprintf("p:%d", pw.id))
					} else {
						w.log("p:%d", pw.id)
					}
					w.mu.Unlock()
					return true
				}
				time.Sleep(100 * time.Microsecond)
			}
			w.mu.Lock()
			w.log("!publish-timeout:%d", pw.id)
			w.mu.Unlock()
			return true
		}
		w.mu.Unlock()
		if time.Now().After(deadline) {
			return false
		}
		time.Sleep(200 * time.Microsecond)
	}
}

// ckpt: a whole checkpoint round with a seeded acknowledgement order
func (w *c01World) ckpt(seed int) string {
	w.tickNoTake()
	r := lib.NewRng(uint64(seed) + 77)
	w.mu.Lock()
	n := w.cfg.n
	w.mu.Unlock()
	acks := 0
	for i := 0; i < n; i++ {
		if !w.releaseAck('r', r.Intn(8), c01GateGrace) {
			break
		}
		acks++
	}
	for i := 0; i < n && acks >= n; i++ {
		if !w.releaseAck('o', r.Intn(8), c01GateGrace) {
			break
		}
		acks++
	}
	w.publish(0, 300*time.Millisecond)
	// result token: did every runner and operator acknowledgement of the round arrive (bounded wait)?
	if acks == 2*n {
		return w.take() + " done"
	}
	return w.take() + " incomplete"
}

func (w *c01World) tickNoTake() {
	w.mu.Lock()
	clk := w.jclk
	w.mu.Unlock()
	done := make(chan int, 1)
	go func() {
		defer func() { recover() }()
		done <- clk.fire("checkpointing", true)
	}()
	select {
	case <-done:
	case <-time.After(2 * c01Grace):
	}
}

func (w *c01World) kill(num int) string {
	suffix := w.killNoTake(num)
	return w.take() + suffix
}

func (w *c01World) killNoTake(num int) string {
	w.mu.Lock()
	if num < 0 || num >= len(w.workers) {
		w.mu.Unlock()
		return " nosuch"
	}
	wk := w.workers[num]
	if wk.killed.Load() {
		w.mu.Unlock()
		return " dead"
	}
	wk.killed.Store(true)
	w.log("k:%d", num)
	w.dropAcksLocked(wk)
	w.mu.Unlock()
	func() {
		defer func() { recover() }()
		wk.w.Halt()
	}()
	return ""
}

// the acknowledgements a dead process was about to send are never sent (wk == nil: all of them)
func (w *c01World) dropAcksLocked(wk *c01Worker) {
	var keep []*c01Ack
	for _, a := range w.acks {
		if wk == nil || a.wk == wk {
			a.release <- false
		} else {
			keep = append(keep, a)
		}
	}
	w.acks = keep
}

// settle waits (bounded) until the workers that survived a partial failure have stopped themselves: a source
// runner that cannot reach an operator (at the latest with its next 200 ms watermark) fails, which stops its worker
func (w *c01World) settle() string {
	// a survivor whose runner or operator is parked at the acknowledgement gate cannot notice anything: let the
	// parked acknowledgements through first (each is an ordinary, logged step)
	for i := 0; i < 8; i++ {
		if !w.releaseAck('r', 0, 0) && !w.releaseAck('o', 0, 0) {
			break
		}
	}
	deadline := time.Now().Add(2 * time.Second)
	for {
		n := len(w.liveWorkers())
		if n == 0 {
			return w.take() + " settled"
		}
		if time.Now().After(deadline) {
			return w.take() + fmt.Sprintf(" survivors:%d", n)
		}
		time.Sleep(time.Millisecond)
	}
}

// restart after worker failures (the job stays up)
func (w *c01World) restart(fail int, live bool) string {
	w.mu.Lock()
	alive := 0
	for _, wk := range w.workers {
		if !wk.killed.Load() {
			alive++
		}
	}
	need := w.cfg.n - alive
	after := w.dep
	clk := w.jclk
	w.failDeploy = fail
	w.mu.Unlock()
	if need <= 0 && fail == 0 {
		// nothing failed: a transient loss of heartbeats still redeploys
	}
	if live {
		// replacements register while the dead workers' heartbeats have not expired yet: the job may put a dead node
		// into the next assembly, fail to deploy it and deploy the others a second time later
		for i := 0; i < need; i++ {
			w.newWorker()
		}
		time.Sleep(time.Millisecond)
		clk.advance((c01Heartbeat + 1) * time.Second)
	} else {
		// the dead workers' heartbeats expire first: the first registration purges them
		clk.advance((c01Heartbeat + 1) * time.Second)
		for i := 0; i < need; i++ {
			w.newWorker()
		}
		time.Sleep(time.Millisecond)
	}
	w.heartbeat()
	ok := w.waitRunning(after)
	w.mu.Lock()
	w.failDeploy = 0
	w.mu.Unlock()
	if !ok {
		return w.take() + " NOTRUNNING"
	}
	return w.take()
}

// restartPub: like restart, but the publication of the parked job checkpoint completes while the operators of the
// new assembly are being deployed (after job.start chose the checkpoint to restore, before the source splitter starts)
func (w *c01World) restartPub(j int) string {
	w.mu.Lock()
	live := 0
	for _, wk := range w.workers {
		if !wk.killed.Load() {
			live++
		}
	}
	need := w.cfg.n - live
	after := w.dep
	clk := w.jclk
	n := w.cfg.n
	w.deployGate = true
	w.deployParked = 0
	w.deployGo = make(chan struct{})
	gate := w.deployGo
	w.mu.Unlock()
	for i := 0; i < need; i++ {
		w.newWorker()
	}
	time.Sleep(time.Millisecond)
	clk.advance((c01Heartbeat + 1) * time.Second)
	w.heartbeat()
	deadline := time.Now().Add(c01Grace)
	parked := false
	for time.Now().Before(deadline) {
		w.mu.Lock()
		parked = w.deployParked >= n
		w.mu.Unlock()
		if parked {
			break
		}
		time.Sleep(200 * time.Microsecond)
	}
	res := ""
	if !parked {
		res = " noparked"
	} else if !w.publish(j, 400*time.Millisecond) {
		res = " none"
	}
	w.mu.Lock()
	w.deployGate = false
	w.mu.Unlock()
	close(gate)
	if !w.waitRunning(after) {
		// a publication logged as deferred must not be lost when the deployment did not complete
		w.mu.Lock()
		for _, t := range w.deferPub {
			w.log("%s", t)
		}
		w.deferPub = nil
		w.mu.Unlock()
		return w.take() + res + " NOTRUNNING"
	}
	return w.take() + res
}

func (w *c01World) killJob(n int, fresh bool) string {
	w.mu.Lock()
	w.jobDown = true
	w.jobRestart = true
	after := w.dep
	// the dying job's file writes never happen
	for _, pw := range w.writes {
		pw.release <- false
	}
	w.writes = nil
	w.dropAcksLocked(nil) // the calls into the dead job fail
	old := w.jclk
	ws := append([]*c01Worker(nil), w.workers...)
	w.log("kj")
	w.mu.Unlock()
	_ = old
	if fresh {
		for _, wk := range ws {
			if !wk.killed.Swap(true) {
				w.mu.Lock()
				w.log("k:%d", wk.num)
				w.dropAcksLocked(wk)
				w.mu.Unlock()
				func() {
					defer func() { recover() }()
					wk.w.Halt()
				}()
			}
		}
	}
	if err := w.newJob(n); err != nil {
		return w.take() + " !newjob:" + strings.ReplaceAll(err.Error(), " ", "_")
	}
	live := len(w.liveWorkers())
	for i := live; i < n; i++ {
		w.newWorker()
	}
	time.Sleep(time.Millisecond)
	w.heartbeat()
	if !w.waitRunning(after) {
		return w.take() + " NOTRUNNING"
	}
	return w.take()
}

func c01Header(n, kgc, nsplits, batch, readBatch, nkeys, rot int) string {
	return fmt.Sprintf("M C01 %d %d %d %d %d %d %d", n, kgc, nsplits, batch, readBatch, nkeys, rot)
}

var c01Serial sync.Mutex

var c01DumpN int

func c01Impl(c lib.Case) []string {
	c01Serial.Lock()
	defer c01Serial.Unlock()
	if d := os.Getenv("C01_DUMP"); d != "" { // debugging aid: every case as a replay file
		b, _ := json.Marshal(map[string]any{"property": "C01", "header": c.Header, "ops": c.Ops})
		os.WriteFile(fmt.Sprintf("%s/case-%03d.json", d, c01DumpN), b, 0o644)
		if p := os.Getenv("C01_PROGRESS"); p != "" {
			os.WriteFile(p, []byte(c.Header+"\n"), 0o644)
		}
		c01DumpN++
	}
	f := strings.Fields(c.Header)
	atoi := func(s string) int { n, _ := strconv.Atoi(s); return n }
	if len(f) != 9 {
		return []string{"bad-header"}
	}
	w, err := newC01World(atoi(f[2]), atoi(f[3]), atoi(f[4]), atoi(f[5]), atoi(f[6]), atoi(f[7]), atoi(f[8]))
	if err != nil {
		return []string{"setup-error " + err.Error()}
	}
	defer w.close()
	defer func() {
		w.mu.Lock()
		for k, v := range w.notes {
			c01Count("note:"+k, v)
		}
		reordered, full := w.reordered, strings.Join(w.full, " ")
		w.mu.Unlock()
		// an operator handled records of one split out of index order although no live node was redeployed:
		// keep the raw event log of this run so that it can be chased (it does not reproduce on demand)
		if reordered != "" && !strings.Contains(full, " L:") {
			c01Count("reordering_seen_in_fresh_deployment", 1)
			dir := c01VerifRoot() + "/corpus/C01"
			if os.MkdirAll(dir, 0o755) == nil {
				if ents, _ := os.ReadDir(dir); len(ents) < 20 {
					b, _ := json.MarshalIndent(map[string]any{"note": "raw event log of a run with a within-channel reordering; first out-of-order handler invocation: " + reordered,
						"header_line": c.Header, "ops": c.Ops, "events": full}, "", " ")
					os.WriteFile(fmt.Sprintf("%s/reorder-%s-%d.trace", dir, c.Hash(), time.Now().UnixNano()%1000000), b, 0o644)
				}
			}
		}
	}()
	out := make([]string, 0, len(c.Ops))
	progress := os.Getenv("C01_PROGRESS") // debugging aid: the events of the running case, op by op
	for _, line := range c.Ops {
		a := strings.Fields(line)
		var o string
		if progress != "" && len(out) > 0 {
			if f, err := os.OpenFile(progress, os.O_APPEND|os.O_CREATE|os.O_WRONLY, 0o644); err == nil {
				fmt.Fprintf(f, "%s => %s\n", c.Ops[len(out)-1], out[len(out)-1])
				f.Close()
			}
		}
		switch {
		case len(a) == 1 && a[0] == "boot":
			o = w.boot()
		case len(a) == 3 && a[0] == "feed":
			sp := atoi(a[1])
			w.mu.Lock()
			if sp >= 0 && sp < len(w.splits) {
				for _, k := range strings.Split(a[2], ",") {
					w.splits[sp] = append(w.splits[sp], atoi(k))
				}
			}
			w.mu.Unlock()
			o = w.take()
		case len(a) == 1 && a[0] == "wait":
			o = w.wait()
		case len(a) == 1 && a[0] == "tick":
			o = w.tick()
		case len(a) == 2 && a[0] == "rack":
			if !w.releaseAck('r', atoi(a[1]), c01GateGrace) {
				o = w.take() + " none"
			} else {
				o = w.take()
			}
		case len(a) == 2 && a[0] == "oack":
			if !w.releaseAck('o', atoi(a[1]), c01GateGrace) {
				o = w.take() + " none"
			} else {
				o = w.take()
			}
		case len(a) == 2 && a[0] == "pub":
			if !w.publish(atoi(a[1]), 400*time.Millisecond) {
				o = w.take() + " none"
			} else {
				o = w.take()
			}
		case len(a) == 2 && a[0] == "ckpt":
			o = w.ckpt(atoi(a[1]))
		case len(a) == 1 && a[0] == "pause":
			w.mu.Lock()
			w.pauseReads = true
			w.mu.Unlock()
			o = w.take()
		case len(a) == 1 && a[0] == "resume":
			w.mu.Lock()
			w.pauseReads = false
			w.mu.Unlock()
			o = w.take()
		case len(a) == 2 && a[0] == "kill":
			o = w.kill(atoi(a[1]))
		case len(a) == 2 && (a[0] == "restart" || a[0] == "restartlive"):
			o = w.restart(atoi(a[1]), a[0] == "restartlive" || atoi(a[1]) > 0)
		case len(a) == 1 && a[0] == "killall":
			for _, wk := range w.liveWorkers() {
				w.killNoTake(wk.num)
			}
			o = w.take()
		case len(a) == 2 && a[0] == "killr":
			if live := w.liveWorkers(); len(live) > 0 {
				o = w.kill(live[atoi(a[1])%len(live)].num)
			} else {
				o = w.take() + " nosuch"
			}
		case len(a) == 1 && a[0] == "settle":
			o = w.settle()
		case len(a) == 2 && a[0] == "restartpub":
			o = w.restartPub(atoi(a[1]))
		case len(a) == 3 && a[0] == "killjob":
			o = w.killJob(atoi(a[1]), a[2] == "1")
		case len(a) == 1 && a[0] == "probe":
			w.mu.Lock()
			for k := 0; k < w.cfg.nkeys; k++ {
				sp := k % len(w.splits)
				w.splits[sp] = append(w.splits[sp], k)
			}
			w.pauseReads = false
			w.mu.Unlock()
			o = w.wait()
		case len(a) == 1 && a[0] == "end":
			// stalls are judged at the `wait` / `probe` lines; here both sides only say whether the run ended at rest
			if w.quiescent() {
				o = "ok"
			} else {
				o = "not-quiescent"
			}
		default:
			o = "bad-op"
		}
		out = append(out, o)
		for _, t := range strings.Fields(o) {
			switch {
			case strings.HasPrefix(t, "d:"):
				c01Count("handler_invocations", 1)
			case strings.HasPrefix(t, "R:"):
				c01Count("deployments", 1)
			case strings.HasPrefix(t, "L:"):
				c01Count("deployments_reusing_a_live_node", 1)
			case strings.HasPrefix(t, "p:"):
				c01Count("published_checkpoints", 1)
			case strings.HasPrefix(t, "k:"):
				c01Count("worker_kills", 1)
			case strings.HasPrefix(t, "x:"):
				c01Count("workers_that_stopped_themselves", 1)
			case strings.HasPrefix(t, "xr:"):
				c01Count("self_stops_in_a_healthy_deployment:operator_not_ready_race", 1)
			case strings.HasPrefix(t, "xu:"):
				c01Count("self_stops_unexplained", 1)
			case strings.HasPrefix(t, "survivors:"):
				c01Count("grace_expired:survivors", 1)
			case t == "kj":
				c01Count("job_kills", 1)
			case t == "NQ" || t == "NOTRUNNING" || t == "none":
				c01Count("grace_expired:"+t, 1)
			case strings.HasPrefix(t, "z"):
				c01Count("zombie_events", 1)
			}
		}
	}
	return out
}

// ---------------------------------------------------------------- generator

type c01Gen struct {
	r       *lib.Rng
	ops     []string
	n       int
	nsplits int
	nkeys   int
	fresh   bool // only recoveries onto fresh processes (see rot in c01Gen1)
	racy    bool // a recovery whose outcome depends on a race with the survivors' own shutdown was scheduled
}

func (g *c01Gen) add(s string, a ...any) { g.ops = append(g.ops, fmt.Sprintf(s, a...)) }

func (g *c01Gen) feed(max int) {
	sp := g.r.Intn(g.nsplits)
	n := g.r.Range(1, max)
	ks := make([]string, n)
	for i := range ks {
		ks[i] = strconv.Itoa(g.r.Intn(g.nkeys))
	}
	g.add("feed %d %s", sp, strings.Join(ks, ","))
}

func (g *c01Gen) feeds(lo, hi, max int) {
	for i := g.r.Range(lo, hi); i > 0; i-- {
		g.feed(max)
	}
}

// killSome: all workers die, or (two thirds of the time when there are several) a strict subset dies and the
// survivors stop themselves when their source runner meets the dead operator (fail-fast), so that the job replaces
// every process; returns false when the survivors may still be alive at the restart
func (g *c01Gen) killSome() {
	if !g.fresh && g.n >= 2 && g.r.Chance(2, 3) {
		for k := g.r.Range(1, g.n-1); k > 0; k-- {
			g.add("killr %d", g.r.Intn(8))
		}
		g.add("settle")
		return
	}
	g.add("killall")
}

// fail: a failure of workers while the job stays up, and the recovery from it
func (g *c01Gen) fail() {
	switch {
	case g.fresh:
		g.add("killall")
		g.add("restart 0")
	case g.n >= 2 && g.r.Chance(1, 6):
		// a strict subset dies and the job redeploys at once: survivors that have not stopped themselves yet are
		// redeployed as live processes (finding D39); a survivor dying during the deployment can make it fail
		for k := g.r.Range(1, g.n-1); k > 0; k-- {
			g.add("killr %d", g.r.Intn(8))
		}
		g.add("restartlive 0")
		g.racy = true
	case g.r.Chance(1, 30):
		// nobody dies, every heartbeat expires: the job redeploys the same live processes (finding D39)
		g.add("restartlive 0")
		g.racy = true
	default:
		g.killSome()
		g.add("restart 0")
	}
}

// one checkpoint round that is interrupted by a failure at a chosen point
func (g *c01Gen) interruptedRound() {
	point := g.r.Intn(6)
	g.add("tick")
	step := 0
	if point >= 1 { // some or all runner acknowledgements (barriers go out)
		k := g.n
		if point == 1 {
			k = g.r.Range(1, g.n)
		}
		for i := 0; i < k; i++ {
			g.add("rack %d", g.r.Intn(4))
		}
		step = 1
	}
	if g.r.Bool() {
		g.feed(4)
	}
	if point >= 3 { // some or all operator acknowledgements
		k := g.n
		if point == 3 {
			k = g.r.Range(1, g.n)
			if k == g.n && g.n > 1 {
				k--
			}
		}
		for i := 0; i < k; i++ {
			g.add("oack %d", g.r.Intn(4))
		}
		step = 2
	}
	_ = step
	// point 4/5: the checkpoint is complete but its publication is still in flight when the failure strikes
	g.killSome()
	if point == 5 && g.r.Bool() {
		g.add("pub 0") // the job (still alive) finishes the publication after the workers died
	}
	if point == 4 && g.r.Chance(2, 3) {
		// the publication of the complete checkpoint finishes while the restart is deploying the operators
		g.add("restartpub 0")
		return
	}
	g.add("restart 0")
	if point >= 4 && g.r.Bool() {
		g.add("pub 0") // a checkpoint of the previous deployment becomes current after the restart
	}
}

func c01Gen1(r *lib.Rng, tier string, idx int) lib.Case {
	n := lib.Pick(r, []int{1, 1, 2, 2, 2, 3, 3, 4})
	kgc := lib.Pick(r, []int{2, 4, 6, 8, 10, 16, 256})
	if kgc < n {
		kgc = n
	}
	nsplits := r.Range(1, 4)
	nkeys := r.Range(1, 6)
	batch := r.Range(1, 4)
	readBatch := r.Range(1, 3)
	// rot > 0 seals the operator's memtable every rot-th handler batch, so that the keyed state also lives in
	// sstables (flush/compaction under the cluster, restores through checkpoints that reference tables). Two fixed
	// cases run with it on every check. Generated cases keep rot = 0 unless C01_ROT is set (all: every case, and only
	// recoveries onto fresh processes; live: every case with all recovery shapes). With small memtables a cluster run
	// sooner or later dies with "panic: file not found" in sst.Table.loadFooter inside an operator's event loop, which
	// takes the whole in-process cluster, i.e. the check, down:
	//  * within a few dozen cases when an operator process is redeployed live (its released database instance is
	//    garbage collected and its cleanup deletes table files a later checkpoint references: finding D25 of C09);
	//  * about once in 100-300 cases even when every recovery is onto fresh processes and every finished cluster is
	//    kept reachable (corpus/C01/sstables-file-not-found-fresh-only.trace: the second restore from a checkpoint
	//    that was taken two deployments earlier and published late). Re-enable when C09 has settled this.
	rot := 0
	if v := os.Getenv("C01_ROT"); v == "all" || v == "live" {
		rot = lib.Pick(r, []int{1, 2, 2, 3})
	} else {
		_ = r.Intn(4)
	}
	rotFreshOnly := os.Getenv("C01_ROT") != "live"
	g := &c01Gen{r: r, n: n, nsplits: nsplits, nkeys: nkeys, fresh: rot > 0 && rotFreshOnly}
	g.add("boot")
	rounds := r.Range(2, 5)
	if tier == "thorough" {
		rounds = r.Range(2, 7)
	}
	for i := 0; i < rounds; i++ {
		g.feeds(1, 4, 8)
		switch r.Intn(10) {
		case 0, 1, 2: // clean checkpoint, then failure with data in flight
			if r.Bool() {
				g.add("wait")
			}
			g.add("ckpt %d", r.Intn(1000))
			g.feeds(0, 3, 6)
			if r.Bool() {
				g.add("wait")
			}
			g.fail()
		case 3, 4, 5:
			g.interruptedRound()
		case 6: // two checkpoints back to back, failure before anything else
			g.add("ckpt %d", r.Intn(1000))
			g.feeds(0, 2, 5)
			g.add("ckpt %d", r.Intn(1000))
			g.fail()
		case 7: // the job process dies (with every worker), possibly between completion and publication
			g.add("ckpt %d", r.Intn(1000))
			g.feeds(0, 2, 5)
			if r.Bool() {
				g.add("tick")
				for i := 0; i < g.n; i++ {
					g.add("rack %d", r.Intn(4))
				}
				for i := 0; i < g.n; i++ {
					g.add("oack %d", r.Intn(4))
				}
			}
			if !g.fresh && r.Chance(1, 5) {
				// the live workers re-register with the new job and are redeployed as live processes (finding D39)
				g.add("killjob %d 0", g.n)
				g.racy = true
				break
			}
			if r.Chance(1, 2) { // the new job runs with a different worker count: state is repartitioned
				g.n = lib.Pick(r, []int{1, 2, 3, 4})
				if g.n > kgc {
					g.n = kgc
				}
			}
			g.add("killjob %d 1", g.n)
		case 8: // failure with no checkpoint since the last restart
			if r.Bool() {
				g.add("wait")
			}
			g.fail()
		case 9: // failure-free rounds; the publication of the first is still in flight when the second completes
			if r.Bool() {
				g.add("ckpt %d", r.Intn(1000))
				g.add("wait")
			} else {
				for k := 0; k < 2; k++ {
					g.add("tick")
					for i := 0; i < g.n; i++ {
						g.add("rack %d", r.Intn(4))
					}
					for i := 0; i < g.n; i++ {
						g.add("oack %d", r.Intn(4))
					}
					g.feeds(0, 2, 4)
				}
				g.add("pub %d", r.Intn(2))
				g.add("pub 0")
				if r.Bool() {
					g.fail()
				}
			}
		}
	}
	if g.racy || r.Chance(1, 3) {
		// end on fresh processes, whatever the racy recoveries above left behind
		g.add("killall")
		g.add("restart 0")
	}
	g.feeds(0, 2, 5)
	g.add("wait")
	g.add("probe")
	g.add("end")
	return lib.Case{Header: c01Header(n, kgc, nsplits, batch, readBatch, nkeys, rot), Ops: g.ops}
}

func c01Fixed() []lib.Case {
	return []lib.Case{
		// breadth-first baseline: 1 worker, 1 split, one checkpoint, one kill, one restart
		{Header: c01Header(1, 8, 1, 2, 2, 2, 0), Ops: []string{
			"boot", "feed 0 0,1,0,1,1", "wait", "ckpt 1", "feed 0 1,0,0", "wait", "kill 0", "restart 0",
			"feed 0 0,1", "wait", "probe", "end"}},
		// 2 workers, 3 splits, failure while checkpoint 2 is half acknowledged
		{Header: c01Header(2, 8, 3, 2, 1, 4, 0), Ops: []string{
			"boot", "feed 0 0,1,2,3", "feed 1 3,2,1,0", "feed 2 1,1,2", "ckpt 5", "feed 0 2,2", "feed 1 0,3", "tick", "rack 0",
			"feed 2 3,0", "rack 0", "oack 1", "kill 0", "kill 1", "restart 0", "wait", "ckpt 9", "feed 1 1,2,3", "wait", "probe", "end"}},
		// job process and all workers die after checkpoint 1 was published and checkpoint 2 completed but not written
		{Header: c01Header(2, 4, 2, 1, 2, 3, 0), Ops: []string{
			"boot", "feed 0 0,1,2,0", "feed 1 2,1,0", "wait", "ckpt 3", "feed 0 1,1", "feed 1 2,2", "wait", "tick", "rack 0", "rack 0",
			"oack 0", "oack 0", "killjob 2 1", "wait", "feed 0 0", "wait", "probe", "end"}},
	}
}

var c01RotOps = []string{"boot", "feed 0 0,1,2,3,0,1,2,3,0,1", "feed 1 3,2,1,0,1,2", "wait", "ckpt 1", "feed 0 1,2,3,0", "feed 1 0,0,1", "wait",
	"ckpt 2", "feed 0 0,1,1,1", "wait", "kill 0", "kill 1", "restart 0", "feed 1 2,3,2,3", "wait", "ckpt 3", "killjob 3 1", "feed 0 0,1,2,3",
	"wait", "ckpt 4", "feed 0 0,1", "wait", "killjob 1 1", "feed 1 0,1,2,3", "wait", "probe", "end"}

// regression schedules of repaired defects and, when it is listed as open, the witness of finding D39
func c01Regressions() []lib.Case {
	cases := []lib.Case{
		// D40: a checkpoint of the previous deployment is published after the redeploy; the rejected retain request
		// must not make the next one destroy the WAL of the checkpoint the job restores from
		{Header: c01Header(1, 8, 1, 2, 2, 2, 0), Tags: []string{"D40"}, Ops: []string{
			"boot", "feed 0 0,1,0", "ckpt 1", "wait", "kill 0", "restart 0", "feed 0 1,0,1", "tick", "rack 0", "oack 0", "kill 1",
			"restart 0", "feed 0 0,0", "ckpt 2", "feed 0 1", "ckpt 3", "wait", "kill 2", "restart 0", "feed 0 1,1", "wait", "probe", "end"}},
		// D40: "retain only 2" arrives after the operator took checkpoint 3; checkpoint 3 must stay restorable
		{Header: c01Header(1, 8, 1, 2, 2, 2, 0), Tags: []string{"D40"}, Ops: []string{
			"boot", "feed 0 0,1,0", "ckpt 1", "feed 0 1,1", "tick", "rack 0", "oack 0", "feed 0 0,1", "wait", "tick", "rack 0", "oack 0",
			"pub 0", "pub 0", "feed 0 0", "wait", "kill 0", "restart 0", "feed 0 1", "wait", "probe", "end"}},
		// D41: after scaling out 1 → 2 both operators restored from the same old checkpoint; when it becomes obsolete
		// both destroy its WAL files, the second removal must not make that operator's next checkpoint fail
		{Header: c01Header(1, 8, 1, 2, 2, 4, 0), Tags: []string{"D41"}, Ops: []string{
			"boot", "feed 0 0,1,2,3,0,1", "wait", "ckpt 1", "killjob 2 1", "feed 0 1,2,3,0", "wait", "ckpt 2", "feed 0 0,1", "ckpt 3",
			"wait", "feed 0 2,3", "wait", "kill 1", "kill 2", "restart 0", "wait", "probe", "end"}},
		// checkpoint 2 is complete when all workers die; its publication finishes while the restart deploys the
		// operators: state and source positions must come from the same checkpoint (1)
		{Header: c01Header(2, 8, 2, 2, 2, 4, 0), Tags: []string{"publish-during-deploy"}, Ops: []string{
			"boot", "feed 0 0,1,2,3,0", "feed 1 3,2,1", "wait", "ckpt 1", "feed 0 1,2,2", "feed 1 0,0,3", "wait", "tick", "rack 0", "rack 0",
			"oack 0", "oack 0", "kill 0", "kill 1", "restartpub 0", "wait", "feed 0 3", "wait", "kill 2", "kill 3", "restart 0", "wait", "probe", "end"}},
		{Header: c01Header(1, 8, 1, 1, 1, 2, 0), Tags: []string{"publish-during-deploy"}, Ops: []string{
			"boot", "feed 0 0,1,0,1", "wait", "tick", "rack 0", "oack 0", "kill 0", "restartpub 0", "wait", "probe", "end"}},
		// 4 workers over 6 and over 10 key groups: the remainder-first range layout differs from proportional
		// rounding (key k3 lies in group 3 of 6, keys k4 and k18 in group 5 of 10); the runner must route each key to the
		// operator that owns its state, before and after a recovery
		{Header: c01Header(4, 6, 2, 2, 2, 6, 0), Tags: []string{"routing"}, Ops: []string{
			"boot", "feed 0 0,1,2,3,4,5,3,3", "feed 1 5,4,3,2,1,0", "wait", "ckpt 1", "feed 0 3,2,3", "wait", "killall", "restart 0", "feed 1 3,3,1",
			"wait", "probe", "end"}},
		{Header: c01Header(4, 10, 2, 2, 2, 19, 0), Tags: []string{"routing"}, Ops: []string{
			"boot", "feed 0 4,18,0,1,4", "feed 1 18,4,2,3", "wait", "ckpt 1", "feed 0 4,18", "wait", "killall", "restart 0", "feed 1 4,18,5",
			"wait", "probe", "end"}},
		// small memtables (sealed every 2nd / every handler batch): the checkpoints the restores go through reference
		// sstables; worker restart, scale out 2 → 3, scale in 3 → 1
		{Header: c01Header(2, 8, 2, 2, 2, 4, 2), Tags: []string{"sstables"}, Ops: c01RotOps},
		{Header: c01Header(2, 8, 2, 1, 2, 4, 1), Tags: []string{"sstables"}, Ops: c01RotOps},
		// rescale 2 → 3 → 1 → 2 through job restarts
		{Header: c01Header(2, 8, 3, 2, 2, 5, 0), Tags: []string{"rescale"}, Ops: []string{
			"boot", "feed 0 0,1,2,3,4,0,1", "feed 1 4,3,2,1,0", "feed 2 2,2,3,3", "wait", "ckpt 3", "feed 0 1,1", "feed 1 2,2", "wait",
			"killjob 3 1", "wait", "feed 0 0,4", "feed 2 1,3", "wait", "ckpt 8", "feed 1 0,1,2,3,4", "wait", "killjob 1 1", "wait", "feed 0 3",
			"wait", "ckpt 2", "killjob 2 1", "feed 2 0,1,2,3,4", "wait", "probe", "end"}},
	}
	for _, k := range lib.LoadKnown(c01VerifRoot()) {
		if k.Property == "C01" && k.ID == "D39" && k.Status == "open" {
			cases = append(cases,
				// every heartbeat expires although nobody died: the job redeploys the same live worker process
				lib.Case{Header: c01Header(1, 256, 1, 4, 1, 4, 0), Tags: []string{"D39"}, Ops: []string{"boot", "restart 0", "probe", "end"}},
				// one Deploy request of the redeploy fails once; the retry deploys nodes that were just deployed
				lib.Case{Header: c01Header(3, 256, 3, 4, 3, 5, 0), Tags: []string{"D39"}, Ops: []string{"boot", "kill 0", "kill 1", "kill 2", "restart 2", "feed 0 3,2,3,4,2,1,1", "ckpt 770", "wait", "probe", "end"}})
		}
	}
	return cases
}

func c01VerifRoot() string {
	for i, a := range os.Args {
		if (a == "-verif" || a == "--verif") && i+1 < len(os.Args) {
			return os.Args[i+1]
		}
		if strings.HasPrefix(a, "-verif=") {
			return strings.TrimPrefix(a, "-verif=")
		}
	}
	return "/verif"
}

// The framework re-runs a diverging case and drops the divergence when it does not come back (it prints a note on
// stderr). Around racy recoveries this filter is really used, so the notes are counted by kind for the evidence
// (extra.unreproducible_by_kind): stderr is passed through unchanged and scanned for those notes.
var (
	c01UnreproMu sync.Mutex
	c01Unrepro   = map[string]int{}
	c01KindRe    = regexp.MustCompile(`DISABLED\(([a-zA-Z!]+)[:)]|(STALLED\([a-z]+|CHECKPOINT-STALLED|DEPLOYMENT-STALLED|not-quiescent|exactly-once-violated)`)
	c01ReasonRe  = regexp.MustCompile(`DISABLED\([^)]*:([a-z-]+?)(-[0-9.]+)?\)`)
)

func c01DivergenceKind(note string) string {
	i := strings.Index(note, "model=\"")
	if i < 0 {
		return "other"
	}
	model := note[i:]
	m := c01KindRe.FindStringSubmatch(model)
	if m == nil {
		return "observation-differs" // same steps, different observation (handler state, cursors, restored checkpoint)
	}
	if m[1] != "" {
		kind := map[string]string{"d": "handler-invocation", "c": "operator-ack", "b": "runner-ack", "t": "checkpoint-start",
			"p": "publication", "r": "read", "R": "deployment", "L": "deployment"}[m[1]]
		if kind == "" {
			kind = "step-" + m[1]
		}
		if r := c01ReasonRe.FindStringSubmatch(model); r != nil {
			kind += ":" + r[1]
		}
		return kind
	}
	return strings.TrimSuffix(strings.Replace(m[2], "(", ":", 1), ")")
}

func c01TeeStderr() {
	r, w, err := os.Pipe()
	if err != nil {
		return
	}
	real := os.Stderr
	os.Stderr = w
	go func() {
		br := bufio.NewReaderSize(r, 1<<20)
		for {
			line, err := br.ReadString('\n')
			if len(line) > 0 {
				real.WriteString(line)
				if strings.HasPrefix(line, "note: a ") && strings.Contains(line, "did not reproduce") {
					c01UnreproMu.Lock()
					c01Unrepro[c01DivergenceKind(line)]++
					c01UnreproMu.Unlock()
				}
			}
			if err != nil {
				return
			}
		}
	}()
}

func propC01() *lib.Prop {
	c01TeeStderr()
	lib.CaseTimeout = 120 * time.Second
	return &lib.Prop{
		ID:       "C01",
		FeedImpl: true,
		Corr:     "Model/Pipeline.lean (abstract dataflow over the component specs) ↔ in-process mini-cluster: real jobs.Job + snapshots.Store, real workers.Worker (SourceRunner, Operator, DKV on disk), real partitioning; scripted source, reference handler, clocks, gated acknowledgements and gated job storage supplied by the harness",
		Rule:     "cases = cluster runs (schedule of feeds, checkpoint rounds with forced acknowledgement orders, worker/job kills at chosen points of the round, restarts); every recorded event must be an enabled step of Rxn.Pipeline.step and every handler invocation must be given the model's key state; non-trivial = a deployment restored a published checkpoint after a failure and handler invocations followed it",
		NumCases: func(tier string) int {
			if tier == "thorough" {
				return 240
			}
			return 40
		},
		Gen:   c01Gen1,
		Impl:  c01Impl,
		Fixed: func(tier string) []lib.Case { return append(c01Fixed(), c01Regressions()...) },
		Extra: func() map[string]any {
			c01StatsMu.Lock()
			defer c01StatsMu.Unlock()
			m := map[string]any{}
			for k, v := range c01Stats {
				m[k] = v
			}
			time.Sleep(100 * time.Millisecond) // let the stderr pass-through catch up
			u := map[string]any{}
			c01UnreproMu.Lock()
			for k, v := range c01Unrepro {
				u[k] = v
			}
			c01UnreproMu.Unlock()
			return map[string]any{"observations": m, "unreproducible_by_kind": u}
		},
		Nontrivial: func(c lib.Case, out []string) bool {
			restored := false
			for _, o := range out {
				for _, t := range strings.Fields(o) {
					if strings.HasPrefix(t, "R:") && !strings.Contains(t, ":none:") {
						restored = true
					}
					if restored && strings.HasPrefix(t, "d:") {
						return true
					}
				}
			}
			return false
		},
	}
}
