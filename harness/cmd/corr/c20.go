package main

import (
	"context"
	"fmt"
	"runtime"
	"strconv"
	"strings"
	"sync"
	"sync/atomic"
	"time"

	"reduction.dev/reduction/batching"
	"reduction.dev/reduction/clocks"
	"reduction.dev/reduction/util/verifhook"
	"verif/harness/lib"
)

func init() { register("C20", propC20) }

// ---------------------------------------------------------------------------------------------
// fake timer: the repository's clocks.FakeTimer underneath; additionally remembers whether a callback is
// armed (FakeTimer.Trigger on a stopped timer is a nil call) and the last callback ever set (a callback
// that raced with Stop, as time.AfterFunc allows).

type vTimer struct {
	mu    sync.Mutex
	inner clocks.FakeTimer
	armed bool
	last  func()
}

func (t *vTimer) Set(d time.Duration, do func()) {
	t.mu.Lock()
	defer t.mu.Unlock()
	t.inner.Set(d, do)
	t.armed = true
	t.last = do
}

func (t *vTimer) Stop() {
	t.mu.Lock()
	defer t.mu.Unlock()
	t.inner.Stop()
	t.armed = false
}

// callback returns the function to run for a fire (armed callback) or a stale fire (last callback).
func (t *vTimer) callback(stale bool) func() {
	t.mu.Lock()
	defer t.mu.Unlock()
	if stale {
		return t.last
	}
	if !t.armed {
		return nil
	}
	return t.inner.Trigger
}

func curGid() uint64 {
	var buf [64]byte
	n := runtime.Stack(buf[:], false)
	f := strings.Fields(string(buf[:n]))
	if len(f) < 2 {
		return 0
	}
	g, _ := strconv.ParseUint(f[1], 10, 64)
	return g
}

func showInts(xs []int) string {
	if len(xs) == 0 {
		return "-"
	}
	ss := make([]string, len(xs))
	for i, x := range xs {
		ss[i] = strconv.Itoa(x)
	}
	return strings.Join(ss, ",")
}

// ---------------------------------------------------------------------------------------------
// lockstep on EventBatcher

func c20Batcher(c lib.Case, maxSize int, delay bool) []string {
	ctx, cancel := context.WithCancel(context.Background())
	defer cancel()
	tm := &vTimer{}
	var d time.Duration
	if delay {
		d = time.Hour
	}
	b := batching.NewEventBatcher[int](ctx, batching.EventBatcherParams{MaxDelay: d, MaxSize: maxSize, Timer: tm})
	var added []int
	var flushed [][]int
	fireTok := func(stale bool) string {
		cb := tm.callback(stale)
		if cb == nil {
			return "unarmed"
		}
		go cb() // the callback blocks sending on the unbuffered BatchTimedOut
		select {
		case tok := <-b.BatchTimedOut:
			return fmt.Sprintf("tok %d", int64(tok))
		case <-time.After(5 * time.Second):
			return "timeout"
		}
	}
	out := make([]string, 0, len(c.Ops))
	for _, op := range c.Ops {
		f := strings.Fields(op)
		switch {
		case len(f) == 2 && f[0] == "add":
			x, _ := strconv.Atoi(f[1])
			b.Add(x)
			added = append(added, x)
			out = append(out, "-")
		case len(f) == 1 && f[0] == "full":
			out = append(out, strconv.FormatBool(b.IsFull()))
		case len(f) == 2 && f[0] == "flush":
			tok := batching.CurrentBatch
			if f[1] != "cur" {
				n, _ := strconv.Atoi(f[1])
				tok = batching.BatchToken(n)
			}
			got := b.Flush(tok)
			flushed = append(flushed, got)
			out = append(out, showInts(got))
		case len(f) == 1 && f[0] == "fire":
			out = append(out, fireTok(false))
		case len(f) == 1 && f[0] == "stale":
			out = append(out, fireTok(true))
		case len(f) == 1 && f[0] == "concat":
			// theorem instance (C20.batcher_concat): handed-out batches ++ current batch = items added
			var cat []int
			for _, fb := range flushed {
				cat = append(cat, fb...)
			}
			cat = append(cat, b.VerifPending()...)
			if showInts(cat) == showInts(added) {
				out = append(out, "ok")
			} else {
				out = append(out, "flushed++pending="+showInts(cat)+" added="+showInts(added))
			}
		default:
			out = append(out, "bad-op")
		}
	}
	return out
}

// ---------------------------------------------------------------------------------------------
// trace validation of ReorderFetcher: a cooperative scheduler over the hook points

type thrSt int

const (
	tIdle     thrSt = iota
	tRunning        // released or started; expected to reach its next hook point / return
	tEnter          // parked at rf.flush.enter (before flushMu.Lock)
	tLockWait       // released from enter while the other flusher is inside the critical section
	tMid            // parked at rf.flush.mid (after batcher.Flush, before Reserve), holds flushMu
	tPostMid        // released from mid with a non-empty batch; Reserve expected to succeed
	tCapWait        // released from mid while the reorder buffer is full
)

type rfThread struct {
	st       thrSt
	n        int // events taken by batcher.Flush (at mid)
	rel      chan struct{}
	returned bool // producer only: Add/Flush returned before the spawned fetch goroutine was seen
}

func (t *rfThread) inCritical() bool { return t.st == tMid || t.st == tPostMid || t.st == tCapWait }

type rfFetch struct {
	id       int
	evs      []int
	rel      chan struct{}
	finished bool
	seq      int64
	drained  bool
	left     int
}

type rfEvent struct {
	label string
	gid   uint64
	n     int
	seq   int64
	evs   []int
	rel   chan struct{}
}

type rfSim struct {
	ctx      context.Context
	rf       *batching.ReorderFetcher[int, int]
	tm       *vTimer
	capacity int
	events   chan rfEvent
	freeRun  atomic.Bool
	pGid     atomic.Uint64
	p, t     rfThread
	fetches  []*rfFetch
	byItem   map[int]*rfFetch
	reserved int
	outs     []int
	hung     bool
	finning  *rfFetch
}

const rfLong = 10 * time.Second
const rfGrace = 4 * time.Millisecond

func (s *rfSim) post(ev rfEvent, block bool) {
	if s.freeRun.Load() {
		return
	}
	if block {
		ev.rel = make(chan struct{})
	}
	select {
	case s.events <- ev:
	case <-s.ctx.Done():
		return
	}
	if block {
		select {
		case <-ev.rel:
		case <-s.ctx.Done():
		}
	}
}

func (s *rfSim) hook(label string, payload []any) {
	switch label {
	case "rf.flush.enter":
		s.post(rfEvent{label: label, gid: curGid()}, true)
	case "rf.flush.mid":
		n, _ := payload[0].(int)
		s.post(rfEvent{label: label, gid: curGid(), n: n}, true)
	case "rf.buffer.add", "rf.drained":
		q, _ := payload[0].(uint64)
		s.post(rfEvent{label: label, seq: int64(q)}, false)
	}
}

func (s *rfSim) fetch(ctx context.Context, events []int) ([]int, error) {
	evs := append([]int(nil), events...)
	s.post(rfEvent{label: "fetch.start", evs: evs}, true)
	return evs, nil
}

func (s *rfSim) thr(gid uint64) *rfThread {
	if gid == s.pGid.Load() {
		return &s.p
	}
	return &s.t
}

func (s *rfSim) handle(ev rfEvent) {
	switch ev.label {
	case "rf.flush.enter":
		th := s.thr(ev.gid)
		th.st, th.rel = tEnter, ev.rel
	case "rf.flush.mid":
		th := s.thr(ev.gid)
		th.st, th.n, th.rel = tMid, ev.n, ev.rel
	case "fetch.start":
		f := &rfFetch{id: len(s.fetches), evs: ev.evs, rel: ev.rel, seq: -1, left: len(ev.evs)}
		s.fetches = append(s.fetches, f)
		for _, x := range ev.evs {
			s.byItem[x] = f
		}
		s.reserved++
		// the flusher that was past the mid hook has reserved, unlocked and spawned this goroutine
		for _, th := range []*rfThread{&s.p, &s.t} {
			if th.st == tPostMid || th.st == tCapWait {
				if th == &s.p && !th.returned {
					th.st = tRunning // still has to return from Add/Flush
				} else {
					th.st = tIdle
				}
				break
			}
		}
	case "rf.buffer.add":
		if s.finning != nil {
			s.finning.seq = ev.seq
		}
	case "rf.drained":
		if s.finning != nil {
			s.finning.drained = true
		}
	case "p.ret":
		if s.p.st == tPostMid || s.p.st == tCapWait {
			s.p.returned = true // the fetch goroutine it spawned has not called fetchBatch yet
		} else {
			s.p.st = tIdle
		}
	}
}

func (s *rfSim) gotOutput(x int) {
	s.outs = append(s.outs, x)
	if f := s.byItem[x]; f != nil {
		f.left--
		if f.left == 0 {
			s.reserved-- // Drain received from the reserved channel for this batch
		}
	}
}

// wait processes hook events and Output until pred holds or the duration elapses.
func (s *rfSim) wait(pred func() bool, d time.Duration) bool {
	deadline := time.NewTimer(d)
	defer deadline.Stop()
	for {
		// take everything that is already available first
		for more := true; more; {
			select {
			case ev := <-s.events:
				s.handle(ev)
			case x := <-s.rf.Output:
				s.gotOutput(x)
			default:
				more = false
			}
		}
		if pred() {
			return true
		}
		select {
		case ev := <-s.events:
			s.handle(ev)
		case x := <-s.rf.Output:
			s.gotOutput(x)
		case <-deadline.C:
			return pred()
		}
	}
}

// settle waits for everything the hook positions say must happen next; positions that are expected to stay
// blocked are only watched for a short grace period (an unexpected arrival is then visible in the snapshot).
func (s *rfSim) settle() {
	for i := 0; i < 8; i++ {
		var pred func() bool
		switch {
		case s.p.st == tRunning:
			pred = func() bool { return s.p.st != tRunning }
		case s.t.st == tRunning:
			pred = func() bool { return s.t.st != tRunning }
		case s.p.st == tPostMid:
			pred = func() bool { return s.p.st != tPostMid }
		case s.t.st == tPostMid:
			pred = func() bool { return s.t.st != tPostMid }
		case s.p.st == tCapWait && s.reserved < s.capacity:
			pred = func() bool { return s.p.st != tCapWait }
		case s.t.st == tCapWait && s.reserved < s.capacity:
			pred = func() bool { return s.t.st != tCapWait }
		case s.p.st == tLockWait && !s.t.inCritical():
			pred = func() bool { return s.p.st != tLockWait }
		case s.t.st == tLockWait && !s.p.inCritical():
			pred = func() bool { return s.t.st != tLockWait }
		}
		if pred == nil {
			break
		}
		if !s.wait(pred, rfLong) {
			s.hung = true
			return
		}
	}
	blocked := func(th *rfThread) bool { return th.st == tLockWait || th.st == tCapWait }
	if blocked(&s.p) || blocked(&s.t) {
		ps, ts := s.p.st, s.t.st
		s.wait(func() bool { return s.p.st != ps || s.t.st != ts }, rfGrace)
	} else {
		s.wait(func() bool { return false }, 0)
	}
}

func (s *rfSim) thrStr(th *rfThread) string {
	switch th.st {
	case tIdle:
		return "i"
	case tEnter:
		return "e"
	case tLockWait:
		return "L"
	case tMid:
		return "m" + strconv.Itoa(th.n)
	case tCapWait:
		return "C"
	case tPostMid:
		return "r"
	}
	return "?"
}

func (s *rfSim) snapshot() string {
	var run []string
	for _, f := range s.fetches {
		if !f.finished {
			es := make([]string, len(f.evs))
			for i, e := range f.evs {
				es[i] = strconv.Itoa(e)
			}
			run = append(run, strconv.Itoa(f.id)+":"+strings.Join(es, "."))
		}
	}
	r := "-"
	if len(run) > 0 {
		r = strings.Join(run, ";")
	}
	return fmt.Sprintf("p=%s t=%s run=%s out=%s", s.thrStr(&s.p), s.thrStr(&s.t), r, showInts(s.outs))
}

func (s *rfSim) startProducer(call func()) {
	s.p.st = tRunning
	s.p.returned = false
	started := make(chan struct{})
	go func() {
		s.pGid.Store(curGid())
		close(started)
		call()
		s.post(rfEvent{label: "p.ret"}, false)
	}()
	<-started
}

func (s *rfSim) release(th, other *rfThread) {
	rel := th.rel
	th.rel = nil
	switch th.st {
	case tEnter:
		if other.inCritical() {
			th.st = tLockWait
		} else {
			th.st = tRunning
		}
	case tMid:
		switch {
		case th.n == 0 && th == &s.p:
			th.st = tRunning
		case th.n == 0:
			th.st = tIdle
		case s.reserved >= s.capacity:
			th.st = tCapWait
		default:
			th.st = tPostMid
		}
	}
	if rel != nil {
		close(rel)
	}
}

func (s *rfSim) op(f []string) string {
	s.outs = nil
	res := "bad-op"
	switch {
	case len(f) == 2 && f[0] == "add":
		if s.p.st != tIdle {
			res = "busy"
			break
		}
		x, _ := strconv.Atoi(f[1])
		s.startProducer(func() { s.rf.Add(s.ctx, x) })
		s.settle()
		res = map[bool]string{true: "ret", false: "park"}[s.p.st == tIdle]
	case len(f) == 1 && f[0] == "flush":
		if s.p.st != tIdle {
			res = "busy"
			break
		}
		s.startProducer(func() { s.rf.Flush(s.ctx) })
		s.settle()
		res = map[bool]string{true: "ret", false: "park"}[s.p.st == tIdle]
	case len(f) == 1 && (f[0] == "fire" || f[0] == "stale"):
		if s.t.st != tIdle {
			res = "tbusy"
			break
		}
		cb := s.tm.callback(f[0] == "stale")
		if cb == nil {
			res = "unarmed"
			break
		}
		s.t.st = tRunning
		go cb()
		s.settle()
		res = "recv"
	case len(f) == 2 && f[0] == "rel":
		th, other := &s.t, &s.p
		if f[1] == "p" {
			th, other = &s.p, &s.t
		}
		if th.st != tEnter && th.st != tMid {
			res = "noop"
			break
		}
		s.release(th, other)
		s.settle()
		res = "ok"
	case len(f) == 2 && f[0] == "fin":
		var running []*rfFetch
		for _, ft := range s.fetches {
			if !ft.finished {
				running = append(running, ft)
			}
		}
		if len(running) == 0 {
			res = "nofetch"
			break
		}
		r, _ := strconv.Atoi(f[1])
		ft := running[r%len(running)]
		ft.finished = true
		s.finning = ft
		close(ft.rel)
		if !s.wait(func() bool { return ft.drained }, rfLong) {
			s.hung = true
		}
		s.finning = nil
		s.settle()
		res = "seq=" + strconv.FormatInt(ft.seq, 10)
	}
	if s.hung {
		return "timeout | " + s.snapshot()
	}
	return res + " | " + s.snapshot()
}

// only one simulation at a time owns the global hook handler
var c20HookMu sync.Mutex

func c20Reorder(c lib.Case, maxSize int, delay bool, bufSize int) []string {
	c20HookMu.Lock()
	defer c20HookMu.Unlock()
	ctx, cancel := context.WithCancel(context.Background())
	tm := &vTimer{}
	var d time.Duration
	if delay {
		d = time.Hour
	}
	s := &rfSim{ctx: ctx, tm: tm, events: make(chan rfEvent, 256), byItem: map[int]*rfFetch{}}
	s.capacity = bufSize
	if s.capacity == 0 {
		s.capacity = 1
	}
	verifhook.Set(s.hook)
	defer verifhook.Set(nil)
	s.rf = batching.NewReorderFetcher(ctx, batching.NewReorderFetcherParams[int, int]{
		Batcher:    batching.NewEventBatcher[int](ctx, batching.EventBatcherParams{MaxDelay: d, MaxSize: maxSize, Timer: tm}),
		FetchBatch: s.fetch,
		ErrChan:    make(chan error, 16),
		BufferSize: bufSize,
	})
	defer func() {
		// let everything run to completion, then stop the goroutines of this case
		s.freeRun.Store(true)
		for _, th := range []*rfThread{&s.p, &s.t} {
			if th.rel != nil {
				close(th.rel)
				th.rel = nil
			}
		}
		for _, ft := range s.fetches {
			if !ft.finished {
				ft.finished = true
				close(ft.rel)
			}
		}
		deadline := time.After(200 * time.Millisecond)
	drain:
		for {
			select {
			case ev := <-s.events:
				if ev.rel != nil {
					close(ev.rel)
				}
			case <-s.rf.Output:
			case <-time.After(2 * time.Millisecond):
				break drain
			case <-deadline:
				break drain
			}
		}
		cancel()
	}()
	out := make([]string, 0, len(c.Ops))
	for _, op := range c.Ops {
		if s.hung {
			out = append(out, "timeout")
			continue
		}
		out = append(out, s.op(strings.Fields(op)))
	}
	return out
}

// ---------------------------------------------------------------------------------------------

func c20Impl(c lib.Case) []string {
	h := strings.Fields(c.Header)
	atoi := func(s string) int { n, _ := strconv.Atoi(s); return n }
	switch {
	case len(h) == 5 && h[2] == "b":
		return c20Batcher(c, atoi(h[3]), atoi(h[4]) != 0)
	case len(h) == 6 && h[2] == "rf":
		return c20Reorder(c, atoi(h[3]), atoi(h[4]) != 0, atoi(h[5]))
	}
	out := make([]string, len(c.Ops))
	for i := range out {
		out[i] = "bad-header"
	}
	return out
}

func c20GenBatcher(r *lib.Rng, tier string) lib.Case {
	maxSize := r.Range(0, 5)
	delay := r.Chance(3, 4)
	c := lib.Case{Header: fmt.Sprintf("M C20 b %d %d", maxSize, map[bool]int{true: 1, false: 0}[delay]), Tags: []string{"batcher"}}
	n := r.Range(5, 40)
	next := 1
	flushes := 0
	for i := 0; i < n; i++ {
		switch k := r.Intn(20); {
		case k < 8:
			c.Ops = append(c.Ops, fmt.Sprintf("add %d", next))
			next++
		case k < 10:
			c.Ops = append(c.Ops, "full")
		case k < 12:
			c.Ops = append(c.Ops, "flush cur")
			flushes++
		case k < 15:
			// a token near the current generation: current, stale or future
			c.Ops = append(c.Ops, fmt.Sprintf("flush %d", max(0, flushes+r.Range(-2, 1))))
			flushes++
		case k < 17:
			c.Ops = append(c.Ops, "fire")
		case k < 18:
			c.Ops = append(c.Ops, "stale")
		default:
			c.Ops = append(c.Ops, "concat")
		}
	}
	c.Ops = append(c.Ops, "concat")
	return c
}

func c20GenReorder(r *lib.Rng, tier string) lib.Case {
	maxSize := r.Range(1, 4)
	buf := r.Range(0, 3)
	if r.Chance(1, 4) {
		buf = r.Range(1, 6)
	}
	delay := r.Chance(5, 6)
	c := lib.Case{Header: fmt.Sprintf("M C20 rf %d %d %d", maxSize, map[bool]int{true: 1, false: 0}[delay], buf), Tags: []string{"reorder"}}
	n := r.Range(10, 45)
	if tier == "thorough" {
		n = r.Range(10, 90)
	}
	next := 1
	// weights differ per case so that some schedules keep flushers parked for long and others drain eagerly
	wAdd, wFire, wRel, wFin := r.Range(3, 8), r.Range(1, 4), r.Range(2, 8), r.Range(1, 6)
	for i := 0; i < n; i++ {
		k := r.Intn(wAdd + wFire + wRel + wFin + 1)
		switch {
		case k < wAdd:
			c.Ops = append(c.Ops, fmt.Sprintf("add %d", next))
			next++
		case k < wAdd+wFire:
			if r.Chance(1, 5) {
				c.Ops = append(c.Ops, "stale")
			} else {
				c.Ops = append(c.Ops, "fire")
			}
		case k < wAdd+wFire+wRel:
			c.Ops = append(c.Ops, "rel "+lib.Pick(r, []string{"p", "t"}))
		case k < wAdd+wFire+wRel+wFin:
			c.Ops = append(c.Ops, fmt.Sprintf("fin %d", r.Intn(4)))
		default:
			c.Ops = append(c.Ops, "flush")
		}
	}
	// wind down: release everything, complete all fetches (reverse order), so that the whole input must come out
	for i := 0; i < 3; i++ {
		c.Ops = append(c.Ops, "rel p", "rel t", "rel p", "rel t")
	}
	c.Ops = append(c.Ops, "flush", "rel p", "rel p")
	for i := 0; i < 8; i++ {
		c.Ops = append(c.Ops, "fin 7", "rel p", "rel t")
	}
	return c
}

func propC20() *lib.Prop {
	return &lib.Prop{
		ID:   "C20",
		Corr: "Model/Batcher.lean ↔ batching.EventBatcher (lockstep); Model/Reorder.lean transition system ↔ batching.ReorderFetcher+ReorderBuffer (trace validation through util/verifhook points rf.flush.enter, rf.flush.mid, rf.buffer.add, rf.drained and scripted fetch completions)",
		Rule: "batcher cases: random Add/IsFull/Flush(token)/timer-expiry histories, sizes 0-5; reorder cases: random schedules of producer Add/Flush, timer expiry (also stale), releases of the two flushers at the hook points and fetch completions in arbitrary order, batch size 1-4, buffer 0-6; non-trivial = a flusher was parked inside the critical section while the other one wanted to flush, a Reserve blocked on a full buffer, fetches completed out of order, or (batcher) a stale token was presented",
		NumCases: func(tier string) int {
			if tier == "thorough" {
				return 6000
			}
			return 1200
		},
		Fixed: func(tier string) []lib.Case {
			return []lib.Case{
				// D17 regression: the timeout flusher is parked between batcher.Flush and Reserve while the producer
				// fills and flushes the next batch. Before the repair the producer overtook it (output 2 3 1).
				{Header: "M C20 rf 2 1 4", Tags: []string{"D17"}, Ops: []string{"add 1", "fire", "rel t", "add 2", "add 3", "rel p", "rel t", "rel p", "rel p", "fin 1", "fin 0"}},
				// same with the roles swapped: producer parked mid-flush, timeout flusher takes the next batch
				{Header: "M C20 rf 1 1 4", Tags: []string{"D17"}, Ops: []string{"add 1", "rel p", "fire", "rel t", "rel p", "add 2", "rel t", "rel t", "fin 1", "fin 0"}},
				// full buffer: Reserve blocks inside the critical section until a drain frees a slot
				{Header: "M C20 rf 1 1 1", Tags: []string{"capacity"}, Ops: []string{"add 1", "rel p", "rel p", "add 2", "rel p", "rel p", "fire", "rel t", "fin 0", "rel t", "fin 0", "fin 0"}},
				{Header: "M C20 b 2 1", Tags: []string{"batcher"}, Ops: []string{"add 1", "fire", "add 2", "full", "flush cur", "stale", "flush 0", "add 3", "flush 0", "fire", "flush 1", "concat"}},
			}
		},
		Gen: func(r *lib.Rng, tier string, i int) lib.Case {
			if i%4 == 0 {
				return c20GenBatcher(r, tier)
			}
			return c20GenReorder(r, tier)
		},
		Impl: c20Impl,
		Nontrivial: func(c lib.Case, implOut []string) bool {
			if strings.Contains(c.Header, " b ") {
				for i, o := range c.Ops {
					if strings.HasPrefix(o, "flush ") && o != "flush cur" && implOut[i] == "-" {
						return true
					}
				}
				return false
			}
			lastSeq := -1
			for _, o := range implOut {
				if strings.Contains(o, "p=L") || strings.Contains(o, "t=L") || strings.Contains(o, "p=C") || strings.Contains(o, "t=C") {
					return true
				}
				if strings.HasPrefix(o, "seq=") {
					q, _ := strconv.Atoi(strings.Fields(o[4:])[0])
					if q < lastSeq {
						return true
					}
					lastSeq = q
				}
			}
			return false
		},
	}
}
