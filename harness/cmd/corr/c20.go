package main

import (
	"context"
	"fmt"
	"runtime"
	"strconv"
	"strings"
	"sync"
	"sync/atomic"
	"time"

	"reduction.dev/reduction/batching"
	"reduction.dev/reduction/clocks"
	"reduction.dev/reduction/util/verifhook"
	"verif/harness/lib"
)

func init() { register("C20", propC20) }

// ---------------------------------------------------------------------------------------------
// fake timer: the repository's clocks.FakeTimer underneath; additionally remembers whether a callback is
// armed (FakeTimer.Trigger on a stopped timer is a nil call) and the last callback ever set (a callback
// that raced with Stop, as time.AfterFunc allows).

type vTimer struct {
	mu    sync.Mutex
	inner clocks.FakeTimer
	armed bool
	last  func()
	// parking: EventBatcher calls Set (in Add) and Stop (in Flush) while it holds its mutex, so a caller parked in
	// here sits in the middle of the batcher's critical section
	parkNext string        // "set" / "stop": park the next such call
	parked   chan struct{} // closed when the call has parked
	release  chan struct{}
}

func (t *vTimer) park(kind string) {
	t.mu.Lock()
	if t.parkNext != kind {
		t.mu.Unlock()
		return
	}
	t.parkNext = ""
	parked, release := t.parked, t.release
	t.mu.Unlock()
	close(parked)
	<-release
}

func (t *vTimer) armPark(kind string) (parked, release chan struct{}) {
	t.mu.Lock()
	defer t.mu.Unlock()
	t.parkNext, t.parked, t.release = kind, make(chan struct{}), make(chan struct{})
	return t.parked, t.release
}

func (t *vTimer) disarmPark() {
	t.mu.Lock()
	t.parkNext = ""
	t.mu.Unlock()
}

func (t *vTimer) Set(d time.Duration, do func()) {
	t.mu.Lock()
	t.inner.Set(d, do)
	t.armed = true
	t.last = do
	t.mu.Unlock()
	t.park("set")
}

func (t *vTimer) Stop() {
	t.mu.Lock()
	t.inner.Stop()
	t.armed = false
	t.mu.Unlock()
	t.park("stop")
}

// callback returns the function to run for a fire (armed callback) or a stale fire (last callback).
func (t *vTimer) callback(stale bool) func() {
	t.mu.Lock()
	defer t.mu.Unlock()
	if stale {
		return t.last
	}
	if !t.armed {
		return nil
	}
	// the armed callback itself (what FakeTimer.Trigger would call): it may be started now and run after a later Stop
	return t.last
}

func curGid() uint64 {
	var buf [64]byte
	n := runtime.Stack(buf[:], false)
	f := strings.Fields(string(buf[:n]))
	if len(f) < 2 {
		return 0
	}
	g, _ := strconv.ParseUint(f[1], 10, 64)
	return g
}

func showInts(xs []int) string {
	if len(xs) == 0 {
		return "-"
	}
	ss := make([]string, len(xs))
	for i, x := range xs {
		ss[i] = strconv.Itoa(x)
	}
	return strings.Join(ss, ",")
}

// ---------------------------------------------------------------------------------------------
// lockstep on EventBatcher

func c20Batcher(c lib.Case, maxSize int, delay bool) []string {
	ctx, cancel := context.WithCancel(context.Background())
	defer cancel()
	tm := &vTimer{}
	var d time.Duration
	if delay {
		d = time.Hour
	}
	b := batching.NewEventBatcher[int](ctx, batching.EventBatcherParams{MaxDelay: d, MaxSize: maxSize, Timer: tm})
	var added []int
	var flushed [][]int
	fireTok := func(stale bool) string {
		cb := tm.callback(stale)
		if cb == nil {
			return "unarmed"
		}
		go cb() // the callback blocks sending on the unbuffered BatchTimedOut
		select {
		case tok := <-b.BatchTimedOut:
			return fmt.Sprintf("tok %d", int64(tok))
		case <-time.After(5 * time.Second):
			return "timeout"
		}
	}
	// one method call of the batcher: returns its result as text and how to record it in the history (recording is
	// done by the harness goroutine, in lock order)
	type callRes struct {
		text string
		rec  func()
	}
	call := func(f []string) (func() callRes, bool) {
		switch {
		case len(f) == 2 && f[0] == "add":
			x, _ := strconv.Atoi(f[1])
			return func() callRes { b.Add(x); return callRes{"-", func() { added = append(added, x) }} }, true
		case len(f) == 1 && f[0] == "full":
			return func() callRes { return callRes{strconv.FormatBool(b.IsFull()), func() {}} }, true
		case len(f) == 2 && f[0] == "flush":
			tok := batching.CurrentBatch
			if f[1] != "cur" {
				n, _ := strconv.Atoi(f[1])
				tok = batching.BatchToken(n)
			}
			return func() callRes {
				got := b.Flush(tok)
				return callRes{showInts(got), func() { flushed = append(flushed, got) }}
			}, true
		}
		return nil, false
	}
	var pendA, pendB chan callRes // results of the parked call A and of the call B waiting for the batcher's mutex
	var relA chan struct{}
	defer func() {
		if relA != nil {
			close(relA)
		}
	}()
	out := make([]string, 0, len(c.Ops))
	for _, op := range c.Ops {
		f := strings.Fields(op)
		if pendA != nil && !(len(f) >= 1 && (f[0] == "try" || f[0] == "unpark")) {
			out = append(out, "busy") // the batcher's mutex is held by the parked call
			continue
		}
		switch {
		case len(f) >= 2 && (f[0] == "padd" || f[0] == "pflush"):
			// run Add / Flush and park it inside the timer call it makes under the batcher's mutex
			kind, g := "set", []string{"add", f[1]}
			if f[0] == "pflush" {
				kind, g = "stop", []string{"flush", f[1]}
			}
			fn, _ := call(g)
			parked, release := tm.armPark(kind)
			res := make(chan callRes, 1)
			go func() { res <- fn() }()
			select {
			case r := <-res:
				tm.disarmPark()
				r.rec()
				out = append(out, "done "+r.text)
			case <-parked:
				pendA, relA = res, release
				out = append(out, "parked")
			case <-time.After(10 * time.Second):
				out = append(out, "timeout")
			}
		case len(f) >= 2 && f[0] == "try":
			fn, ok := call(f[1:])
			switch {
			case !ok:
				out = append(out, "bad-op")
			case pendA == nil:
				r := fn()
				r.rec()
				out = append(out, "ran "+r.text)
			case pendB != nil:
				out = append(out, "busy")
			default:
				res := make(chan callRes, 1)
				go func() { res <- fn() }()
				select {
				case r := <-res: // it got past the mutex although the parked call is inside the critical section
					r.rec()
					out = append(out, "ran "+r.text)
				case <-time.After(5 * time.Millisecond):
					pendB = res
					out = append(out, "blocked")
				}
			}
		case len(f) == 1 && f[0] == "unpark":
			if pendA == nil {
				out = append(out, "none")
				break
			}
			close(relA)
			relA = nil
			ra, rb := "timeout", "-"
			select {
			case r := <-pendA:
				r.rec()
				ra = r.text
			case <-time.After(10 * time.Second):
			}
			if pendB != nil {
				rb = "timeout"
				select {
				case r := <-pendB:
					r.rec()
					rb = r.text
				case <-time.After(10 * time.Second):
				}
			}
			pendA, pendB = nil, nil
			out = append(out, "a="+ra+" b="+rb)
		case len(f) == 2 && f[0] == "add":
			x, _ := strconv.Atoi(f[1])
			b.Add(x)
			added = append(added, x)
			out = append(out, "-")
		case len(f) == 1 && f[0] == "full":
			out = append(out, strconv.FormatBool(b.IsFull()))
		case len(f) == 2 && f[0] == "flush":
			tok := batching.CurrentBatch
			if f[1] != "cur" {
				n, _ := strconv.Atoi(f[1])
				tok = batching.BatchToken(n)
			}
			got := b.Flush(tok)
			flushed = append(flushed, got)
			out = append(out, showInts(got))
		case len(f) == 1 && f[0] == "fire":
			out = append(out, fireTok(false))
		case len(f) == 1 && f[0] == "stale":
			out = append(out, fireTok(true))
		case len(f) == 1 && f[0] == "concat":
			// theorem instance (C20.batcher_concat): handed-out batches ++ current batch = items added
			var cat []int
			for _, fb := range flushed {
				cat = append(cat, fb...)
			}
			cat = append(cat, b.VerifPending()...)
			if showInts(cat) == showInts(added) {
				out = append(out, "ok")
			} else {
				out = append(out, "flushed++pending="+showInts(cat)+" added="+showInts(added))
			}
		default:
			out = append(out, "bad-op")
		}
	}
	return out
}

// ---------------------------------------------------------------------------------------------
// trace validation of ReorderFetcher: a cooperative scheduler over the hook points

type thrSt int

const (
	tIdle     thrSt = iota
	tRunning        // released or started; expected to reach its next hook point / return
	tEnter          // parked at rf.flush.enter (before flushMu.Lock)
	tLockWait       // released from enter while the other flusher is inside the critical section
	tMid            // parked at rf.flush.mid (after batcher.Flush, before Reserve), holds flushMu
	tPostMid        // released from mid with a non-empty batch; Reserve expected to succeed
	tCapWait        // released from mid while the reorder buffer is full
)

type rfThread struct {
	st       thrSt
	n        int // events taken by batcher.Flush (at mid)
	rel      chan struct{}
	returned bool // producer only: Add/Flush returned before the spawned fetch goroutine was seen
}

func (t *rfThread) inCritical() bool { return t.st == tMid || t.st == tPostMid || t.st == tCapWait }

type rfFetchCtl struct{ fail bool }

type rfFetch struct {
	id       int
	gid      uint64
	evs      []int
	rel      chan struct{}
	ctl      *rfFetchCtl
	finished bool // completed by the schedule (fin / fail)
	failed   bool
	added    bool // its goroutine reached buffer.Add (hook rf.buffer.add)
	seq      int64
	drained  bool // its goroutine finished Drain and all its sends (hook rf.drained)
}

type rfEvent struct {
	label string
	gid   uint64
	n     int
	seq   int64
	evs   []int
	rel   chan struct{}
	ctl   *rfFetchCtl
}

type rfSim struct {
	ctx      context.Context
	rf       *batching.ReorderFetcher[int, int]
	tm       *vTimer
	capacity int
	events   chan rfEvent
	errCh    chan error
	freeRun  atomic.Bool
	pGid     atomic.Uint64
	p, t     rfThread
	fetches  []*rfFetch
	outs     []int
	hung     bool
	errs     int
	expSpawn int // a flusher was seen past Reserve before its fetch goroutine called fetchBatch
	pendTok  int // timer callbacks started while the timeout goroutine was busy (blocked sending their token)
	consumed int // values the harness (the consumer) has received from Output
	// expectation of what the fetch goroutines will send, from the hook events (used only to know what to wait for):
	addedLen  map[int64]int // sequence number -> number of results handed to buffer.Add
	nextDrain int64         // next sequence number the drain will dequeue
	drainLens []int         // result counts of the batches the drain can dequeue, in order
}

var c20Hangs atomic.Int32

// rfLong bounds the wait for something that must happen; after two hangs in one run the remaining cases wait briefly
func rfLong() time.Duration {
	if c20Hangs.Load() >= 2 {
		return 300 * time.Millisecond
	}
	return 10 * time.Second
}

const rfGrace = 4 * time.Millisecond

func (s *rfSim) post(ev rfEvent, block bool) {
	if s.freeRun.Load() {
		return
	}
	if block {
		ev.rel = make(chan struct{})
	}
	select {
	case s.events <- ev:
	case <-s.ctx.Done():
		return
	}
	if block {
		select {
		case <-ev.rel:
		case <-s.ctx.Done():
		}
	}
}

func (s *rfSim) hook(label string, payload []any) {
	switch label {
	case "rf.flush.enter":
		s.post(rfEvent{label: label, gid: curGid()}, true)
	case "rf.flush.mid":
		n, _ := payload[0].(int)
		s.post(rfEvent{label: label, gid: curGid(), n: n}, true)
	case "rf.buffer.add", "rf.drained":
		q, _ := payload[0].(uint64)
		s.post(rfEvent{label: label, gid: curGid(), seq: int64(q)}, false)
	}
}

var errC20Fetch = fmt.Errorf("scripted fetch error")

func (s *rfSim) fetch(ctx context.Context, events []int) ([]int, error) {
	evs := append([]int(nil), events...)
	ctl := &rfFetchCtl{}
	s.post(rfEvent{label: "fetch.start", gid: curGid(), evs: evs, ctl: ctl}, true)
	if ctl.fail {
		return nil, errC20Fetch
	}
	return evs, nil
}

func (s *rfSim) thr(gid uint64) *rfThread {
	if gid == s.pGid.Load() {
		return &s.p
	}
	return &s.t
}

func (s *rfSim) fetchOf(gid uint64) *rfFetch {
	for _, f := range s.fetches {
		if f.gid == gid {
			return f
		}
	}
	return nil
}

func (s *rfSim) handle(ev rfEvent) {
	switch ev.label {
	case "rf.flush.enter":
		th := s.thr(ev.gid)
		if th == &s.t && (th.st == tPostMid || th.st == tCapWait) {
			// the timeout goroutine finished its previous flush (Reserve, spawn) and already took a blocked token; the
			// fetch goroutine it spawned has not called fetchBatch yet
			s.expSpawn++
		}
		if th == &s.t && th.st != tRunning && s.pendTok > 0 {
			s.pendTok-- // it got here by taking a token that was blocked on BatchTimedOut
		}
		th.st, th.rel = tEnter, ev.rel
	case "rf.flush.mid":
		th := s.thr(ev.gid)
		th.st, th.n, th.rel = tMid, ev.n, ev.rel
	case "fetch.start":
		f := &rfFetch{id: len(s.fetches), gid: ev.gid, evs: ev.evs, rel: ev.rel, ctl: ev.ctl, seq: -1}
		s.fetches = append(s.fetches, f)
		// the flusher that was past the mid hook has reserved, unlocked and spawned this goroutine
		matched := false
		for _, th := range []*rfThread{&s.p, &s.t} {
			if th.st == tPostMid || th.st == tCapWait {
				if th == &s.p && !th.returned {
					th.st = tRunning // still has to return from Add/Flush
				} else {
					th.st = tIdle
				}
				matched = true
				break
			}
		}
		if !matched && s.expSpawn > 0 {
			s.expSpawn--
		}
	case "rf.buffer.add":
		if f := s.fetchOf(ev.gid); f != nil {
			f.added, f.seq = true, ev.seq
			n := len(f.evs)
			if f.failed {
				n = 0
			}
			s.addedLen[ev.seq] = n
			for {
				l, ok := s.addedLen[s.nextDrain]
				if !ok {
					break
				}
				s.drainLens = append(s.drainLens, l)
				s.nextDrain++
			}
		}
	case "rf.drained":
		if f := s.fetchOf(ev.gid); f != nil {
			f.drained = true
		}
	case "p.ret":
		if s.p.st == tPostMid || s.p.st == tCapWait {
			s.p.returned = true // the fetch goroutine it spawned has not called fetchBatch yet
		} else {
			s.p.st = tIdle
		}
	}
}

// sent = number of values the fetch goroutines have put into Output so far
func (s *rfSim) sent() int { return s.consumed + len(s.rf.Output) }

// dequeued counts the batches the drain has taken out of the reorder buffer (each frees a reserved slot) and returns
// what is still to be sent of the batch being emitted.
func (s *rfSim) dequeued() (n int, pending int) {
	sent, cum := s.sent(), 0
	for _, l := range s.drainLens {
		if cum > sent {
			break
		}
		n++
		pending = max(cum+l-sent, 0)
		cum += l
	}
	return
}

func (s *rfSim) reserved() int {
	n, _ := s.dequeued()
	return len(s.fetches) - n
}

// bufStable: the fetch goroutines have done everything they can do without the consumer
func (s *rfSim) bufStable() bool {
	for _, f := range s.fetches {
		if f.finished && !f.added {
			return false
		}
	}
	total := 0
	for _, l := range s.drainLens {
		total += l
	}
	if s.sent() < total {
		return len(s.rf.Output) == cap(s.rf.Output) // a sender is (about to be) blocked on the full channel
	}
	for _, f := range s.fetches {
		if f.finished && !f.drained {
			return false
		}
	}
	return true
}

// wait processes hook events and errors until pred holds or the duration elapses.
func (s *rfSim) wait(pred func() bool, d time.Duration) bool {
	deadline := time.NewTimer(d)
	defer deadline.Stop()
	poll := time.NewTicker(50 * time.Microsecond) // len(Output) changes without an event
	defer poll.Stop()
	for {
		for more := true; more; {
			select {
			case ev := <-s.events:
				s.handle(ev)
			case <-s.errCh:
				s.errs++
			default:
				more = false
			}
		}
		if pred() {
			return true
		}
		select {
		case ev := <-s.events:
			s.handle(ev)
		case <-s.errCh:
			s.errs++
		case <-poll.C:
		case <-deadline.C:
			return pred()
		}
	}
}

// settle waits for everything the hook positions say must happen next; positions that are expected to stay
// blocked are only watched for a short grace period (an unexpected arrival is then visible in the snapshot).
func (s *rfSim) settle() {
	for i := 0; i < 64; i++ {
		var pred func() bool
		switch {
		case s.p.st == tRunning:
			pred = func() bool { return s.p.st != tRunning }
		case s.t.st == tRunning:
			pred = func() bool { return s.t.st != tRunning }
		case s.expSpawn > 0:
			pred = func() bool { return s.expSpawn == 0 }
		case s.t.st == tIdle && s.pendTok > 0:
			// the timeout goroutine is back in its select: it takes the next blocked token and enters flush
			s.pendTok--
			s.t.st = tRunning
			continue
		case s.p.st == tPostMid:
			pred = func() bool { return s.p.st != tPostMid }
		case s.t.st == tPostMid:
			pred = func() bool { return s.t.st != tPostMid }
		case !s.bufStable():
			pred = s.bufStable
		case s.p.st == tCapWait && s.reserved() < s.capacity:
			pred = func() bool { return s.p.st != tCapWait }
		case s.t.st == tCapWait && s.reserved() < s.capacity:
			pred = func() bool { return s.t.st != tCapWait }
		case s.p.st == tLockWait && !s.t.inCritical():
			pred = func() bool { return s.p.st != tLockWait }
		case s.t.st == tLockWait && !s.p.inCritical():
			pred = func() bool { return s.t.st != tLockWait }
		}
		if pred == nil {
			break
		}
		if !s.wait(pred, rfLong()) {
			s.hung = true
			c20Hangs.Add(1)
			return
		}
	}
	blocked := func(th *rfThread) bool { return th.st == tLockWait || th.st == tCapWait }
	if blocked(&s.p) || blocked(&s.t) {
		ps, ts := s.p.st, s.t.st
		s.wait(func() bool { return s.p.st != ps || s.t.st != ts }, rfGrace)
	} else {
		s.wait(func() bool { return false }, 0)
	}
}

func (s *rfSim) thrStr(th *rfThread) string {
	switch th.st {
	case tIdle:
		return "i"
	case tEnter:
		return "e"
	case tLockWait:
		return "L"
	case tMid:
		return "m" + strconv.Itoa(th.n)
	case tCapWait:
		return "C"
	case tPostMid:
		return "r"
	}
	return "?"
}

func (s *rfSim) snapshot() string {
	var run []string
	for _, f := range s.fetches {
		if !f.finished {
			es := make([]string, len(f.evs))
			for i, e := range f.evs {
				es[i] = strconv.Itoa(e)
			}
			run = append(run, strconv.Itoa(f.id)+":"+strings.Join(es, "."))
		}
	}
	r := "-"
	if len(run) > 0 {
		r = strings.Join(run, ";")
	}
	_, pend := s.dequeued()
	return fmt.Sprintf("p=%s t=%s run=%s out=%s q=%d pend=%d errs=%d tok=%d", s.thrStr(&s.p), s.thrStr(&s.t), r, showInts(s.outs), len(s.rf.Output), pend, s.errs, s.pendTok)
}

func (s *rfSim) startProducer(call func()) {
	s.p.st = tRunning
	s.p.returned = false
	started := make(chan struct{})
	go func() {
		s.pGid.Store(curGid())
		close(started)
		call()
		s.post(rfEvent{label: "p.ret"}, false)
	}()
	<-started
}

func (s *rfSim) release(th, other *rfThread) {
	rel := th.rel
	th.rel = nil
	switch th.st {
	case tEnter:
		if other.inCritical() {
			th.st = tLockWait
		} else {
			th.st = tRunning
		}
	case tMid:
		switch {
		case th.n == 0 && th == &s.p:
			th.st = tRunning
		case th.n == 0:
			th.st = tIdle
		case s.reserved() >= s.capacity:
			th.st = tCapWait
		default:
			th.st = tPostMid
		}
	}
	if rel != nil {
		close(rel)
	}
}

func (s *rfSim) op(f []string) string {
	s.outs = nil
	res := "bad-op"
	switch {
	case len(f) == 2 && f[0] == "add":
		if s.p.st != tIdle {
			res = "busy"
			break
		}
		x, _ := strconv.Atoi(f[1])
		s.startProducer(func() { s.rf.Add(s.ctx, x) })
		s.settle()
		res = map[bool]string{true: "ret", false: "park"}[s.p.st == tIdle]
	case len(f) == 1 && f[0] == "flush":
		if s.p.st != tIdle {
			res = "busy"
			break
		}
		s.startProducer(func() { s.rf.Flush(s.ctx) })
		s.settle()
		res = map[bool]string{true: "ret", false: "park"}[s.p.st == tIdle]
	case len(f) == 1 && (f[0] == "fire" || f[0] == "stale"):
		cb := s.tm.callback(f[0] == "stale")
		if cb == nil {
			res = "unarmed"
			break
		}
		go cb()
		if s.t.st != tIdle {
			s.pendTok++ // blocked on the unbuffered BatchTimedOut until the timeout goroutine returns to its select
			res = "pending"
			break
		}
		s.t.st = tRunning
		s.settle()
		res = "recv"
	case len(f) == 2 && f[0] == "rel":
		th, other := &s.t, &s.p
		if f[1] == "p" {
			th, other = &s.p, &s.t
		}
		if th.st != tEnter && th.st != tMid {
			res = "noop"
			break
		}
		s.release(th, other)
		s.settle()
		res = "ok"
	case len(f) == 2 && (f[0] == "fin" || f[0] == "fail"):
		var running []*rfFetch
		for _, ft := range s.fetches {
			if !ft.finished {
				running = append(running, ft)
			}
		}
		if len(running) == 0 {
			res = "nofetch"
			break
		}
		r, _ := strconv.Atoi(f[1])
		ft := running[r%len(running)]
		ft.finished = true
		ft.failed = f[0] == "fail"
		ft.ctl.fail = ft.failed
		close(ft.rel)
		s.settle()
		res = "seq=" + strconv.FormatInt(ft.seq, 10)
	case len(f) == 2 && f[0] == "take":
		n, _ := strconv.Atoi(f[1])
		for i := 0; i < n && !s.hung; i++ {
			_, pend := s.dequeued()
			if len(s.rf.Output) == 0 && pend == 0 {
				break // nothing in the channel and no sender waiting
			}
			select {
			case x := <-s.rf.Output:
				s.outs = append(s.outs, x)
				s.consumed++
			case <-time.After(rfLong()):
				s.hung = true
				c20Hangs.Add(1)
			}
			s.settle()
		}
		res = "ok"
	}
	if s.hung {
		return "timeout | " + s.snapshot()
	}
	return res + " | " + s.snapshot()
}

// only one simulation at a time owns the global hook handler
var c20HookMu sync.Mutex

func c20Reorder(c lib.Case, maxSize int, delay bool, bufSize int) []string {
	c20HookMu.Lock()
	defer c20HookMu.Unlock()
	ctx, cancel := context.WithCancel(context.Background())
	tm := &vTimer{}
	var d time.Duration
	if delay {
		d = time.Hour
	}
	s := &rfSim{ctx: ctx, tm: tm, events: make(chan rfEvent, 256), errCh: make(chan error, 64), addedLen: map[int64]int{}}
	s.capacity = bufSize
	if s.capacity == 0 {
		s.capacity = 1
	}
	verifhook.Set(s.hook)
	defer verifhook.Set(nil)
	s.rf = batching.NewReorderFetcher(ctx, batching.NewReorderFetcherParams[int, int]{
		Batcher:    batching.NewEventBatcher[int](ctx, batching.EventBatcherParams{MaxDelay: d, MaxSize: maxSize, Timer: tm}),
		FetchBatch: s.fetch,
		ErrChan:    s.errCh,
		BufferSize: bufSize,
	})
	defer func() {
		// let everything run to completion, then stop the goroutines of this case
		s.freeRun.Store(true)
		for _, th := range []*rfThread{&s.p, &s.t} {
			if th.rel != nil {
				close(th.rel)
				th.rel = nil
			}
		}
		for _, ft := range s.fetches {
			if !ft.finished {
				ft.finished = true
				close(ft.rel)
			}
		}
		deadline := time.After(200 * time.Millisecond)
	drain:
		for {
			select {
			case ev := <-s.events:
				if ev.rel != nil {
					close(ev.rel)
				}
			case <-s.rf.Output:
			case <-s.errCh:
			case <-time.After(2 * time.Millisecond):
				break drain
			case <-deadline:
				break drain
			}
		}
		cancel()
	}()
	out := make([]string, 0, len(c.Ops))
	for _, op := range c.Ops {
		if s.hung {
			out = append(out, "timeout")
			continue
		}
		out = append(out, s.op(strings.Fields(op)))
	}
	return out
}

// ---------------------------------------------------------------------------------------------

func c20Impl(c lib.Case) []string {
	h := strings.Fields(c.Header)
	atoi := func(s string) int { n, _ := strconv.Atoi(s); return n }
	switch {
	case len(h) == 5 && h[2] == "b":
		return c20Batcher(c, atoi(h[3]), atoi(h[4]) != 0)
	case len(h) == 6 && h[2] == "rf":
		return c20Reorder(c, atoi(h[3]), atoi(h[4]) != 0, atoi(h[5]))
	}
	out := make([]string, len(c.Ops))
	for i := range out {
		out[i] = "bad-header"
	}
	return out
}

func c20GenBatcher(r *lib.Rng, tier string) lib.Case {
	maxSize := r.Range(0, 5)
	delay := r.Chance(3, 4)
	c := lib.Case{Header: fmt.Sprintf("M C20 b %d %d", maxSize, map[bool]int{true: 1, false: 0}[delay]), Tags: []string{"batcher"}}
	n := r.Range(5, 40)
	next := 1
	flushes := 0
	for i := 0; i < n; i++ {
		switch k := r.Intn(20); {
		case k < 8:
			c.Ops = append(c.Ops, fmt.Sprintf("add %d", next))
			next++
		case k < 10:
			c.Ops = append(c.Ops, "full")
		case k < 12:
			c.Ops = append(c.Ops, "flush cur")
			flushes++
		case k < 15:
			// a token near the current generation: current, stale or future
			c.Ops = append(c.Ops, fmt.Sprintf("flush %d", max(0, flushes+r.Range(-2, 1))))
			flushes++
		case k < 16 && r.Chance(1, 2):
			// overlap two methods: park one inside the critical section, start another, release (as the router's Add and
			// the operator goroutine's time-out Flush do in workers/sourcerunner/operator_cluster.go)
			if r.Bool() {
				c.Ops = append(c.Ops, fmt.Sprintf("padd %d", next))
				next++
			} else {
				c.Ops = append(c.Ops, lib.Pick(r, []string{"pflush cur", fmt.Sprintf("pflush %d", max(0, flushes+r.Range(-1, 0)))}))
				flushes++
			}
			switch r.Intn(3) {
			case 0:
				c.Ops = append(c.Ops, fmt.Sprintf("try add %d", next))
				next++
			case 1:
				c.Ops = append(c.Ops, "try full")
			default:
				c.Ops = append(c.Ops, lib.Pick(r, []string{"try flush cur", fmt.Sprintf("try flush %d", max(0, flushes+r.Range(-1, 0)))}))
				flushes++
			}
			if r.Chance(1, 4) {
				c.Ops = append(c.Ops, "full") // answered `busy` while the mutex is held
			}
			c.Ops = append(c.Ops, "unpark")
		case k < 17:
			c.Ops = append(c.Ops, "fire")
		case k < 18:
			c.Ops = append(c.Ops, "stale")
		default:
			c.Ops = append(c.Ops, "concat")
		}
	}
	c.Ops = append(c.Ops, "concat")
	return c
}

func c20GenReorder(r *lib.Rng, tier string) lib.Case {
	maxSize := r.Range(1, 4)
	buf := r.Range(0, 3)
	if r.Chance(1, 4) {
		buf = r.Range(1, 6)
	}
	delay := r.Chance(5, 6)
	c := lib.Case{Header: fmt.Sprintf("M C20 rf %d %d %d", maxSize, map[bool]int{true: 1, false: 0}[delay], buf), Tags: []string{"reorder"}}
	n := r.Range(10, 50)
	if tier == "thorough" {
		n = r.Range(10, 100)
	}
	next := 1
	// weights differ per case: some schedules keep flushers parked for long, some have a slow consumer, some fail fetches
	wAdd, wFire, wRel, wFin, wTake := r.Range(3, 8), r.Range(1, 4), r.Range(2, 8), r.Range(1, 6), r.Range(0, 6)
	failPct := lib.Pick(r, []int{0, 0, 10, 30})
	for i := 0; i < n; i++ {
		k := r.Intn(wAdd + wFire + wRel + wFin + wTake + 1)
		switch {
		case k < wAdd:
			c.Ops = append(c.Ops, fmt.Sprintf("add %d", next))
			next++
		case k < wAdd+wFire:
			if r.Chance(1, 5) {
				c.Ops = append(c.Ops, "stale")
			} else {
				c.Ops = append(c.Ops, "fire")
			}
		case k < wAdd+wFire+wRel:
			c.Ops = append(c.Ops, "rel "+lib.Pick(r, []string{"p", "t"}))
		case k < wAdd+wFire+wRel+wFin:
			if r.Intn(100) < failPct {
				c.Ops = append(c.Ops, fmt.Sprintf("fail %d", r.Intn(4)))
			} else {
				c.Ops = append(c.Ops, fmt.Sprintf("fin %d", r.Intn(4)))
			}
		case k < wAdd+wFire+wRel+wFin+wTake:
			c.Ops = append(c.Ops, fmt.Sprintf("take %d", r.Range(1, 4)))
		default:
			c.Ops = append(c.Ops, "flush")
		}
	}
	// wind down: release everything, complete all fetches (last first), read Output empty: the whole input must come out
	for i := 0; i < 3; i++ {
		c.Ops = append(c.Ops, "rel p", "rel t", "take 9", "rel p", "rel t")
	}
	c.Ops = append(c.Ops, "flush", "rel p", "rel p")
	for i := 0; i < 10; i++ {
		c.Ops = append(c.Ops, "fin 7", "take 9", "rel p", "rel t")
	}
	c.Ops = append(c.Ops, "take 99")
	return c
}

func propC20() *lib.Prop {
	return &lib.Prop{
		ID:   "C20",
		Corr: "Model/Batcher.lean ↔ batching.EventBatcher (lockstep); Model/Reorder.lean transition system ↔ batching.ReorderFetcher+ReorderBuffer (trace validation through util/verifhook points rf.flush.enter, rf.flush.mid, rf.buffer.add, rf.drained and scripted fetch completions)",
		Rule: "batcher cases: random Add/IsFull/Flush(token)/timer-expiry histories, sizes 0-5; reorder cases: random schedules of producer Add/Flush, timer expiry (also stale), releases of the two flushers at the hook points, fetch completions in arbitrary order (some failing) and consumer reads of Output (slow consumer: senders block on the full channel holding the buffer mutex), batch size 1-4, buffer 0-6; non-trivial = a flusher was parked inside the critical section while the other one wanted to flush, a Reserve blocked on a full buffer, a sender blocked on a full Output, a fetch failed, fetches completed out of order, or (batcher) a stale token was presented",
		NumCases: func(tier string) int {
			if tier == "thorough" {
				return 6000
			}
			return 1200
		},
		Fixed: func(tier string) []lib.Case {
			return []lib.Case{
				// D17 regression: the timeout flusher is parked between batcher.Flush and Reserve while the producer
				// fills and flushes the next batch. Before the repair the producer overtook it (output 2 3 1).
				{Header: "M C20 rf 2 1 4", Tags: []string{"D17"}, Ops: []string{"add 1", "fire", "rel t", "add 2", "add 3", "rel p", "rel t", "rel p", "rel p", "fin 1", "fin 0", "take 9"}},
				// same with the roles swapped: producer parked mid-flush, timeout flusher takes the next batch
				{Header: "M C20 rf 1 1 4", Tags: []string{"D17"}, Ops: []string{"add 1", "rel p", "fire", "rel t", "rel p", "add 2", "rel t", "rel t", "fin 1", "fin 0", "take 9"}},
				// full buffer: Reserve blocks inside the critical section until a drain frees a slot
				{Header: "M C20 rf 1 1 1", Tags: []string{"capacity"}, Ops: []string{"add 1", "rel p", "rel p", "add 2", "rel p", "rel p", "fire", "rel t", "fin 0", "rel t", "take 1", "fin 0", "take 1", "fin 0", "take 9"}},
				// slow consumer: Output (capacity 1) fills while batch 0 is emitted; batch 1 completes meanwhile and must wait
				// for the buffer mutex; the consumer must still see 1..6 (a drain that gives up the mutex early gives 1 2 4 5 6 3)
				{Header: "M C20 rf 3 1 1", Tags: []string{"slow-consumer"}, Ops: []string{"add 1", "add 2", "add 3", "rel p", "rel p", "add 4", "add 5", "add 6", "rel p", "rel p", "fin 0", "fin 0", "take 1", "take 1", "take 2", "take 9"}},
				{Header: "M C20 rf 2 1 0", Tags: []string{"slow-consumer"}, Ops: []string{"add 1", "add 2", "rel p", "rel p", "fin 0", "add 3", "add 4", "rel p", "rel p", "take 1", "fin 0", "take 1", "take 1", "take 9"}},
				// a failed fetch still takes its place in the sequence: later batches flow, Reserve is not wedged
				{Header: "M C20 rf 2 1 2", Tags: []string{"fetch-error"}, Ops: []string{"add 1", "add 2", "rel p", "rel p", "add 3", "add 4", "rel p", "rel p", "add 5", "add 6", "rel p", "rel p", "fail 0", "fin 0", "take 9", "fin 0", "take 9", "add 7", "add 8", "rel p", "rel p", "fin 0", "take 9"}},
				{Header: "M C20 rf 1 1 1", Tags: []string{"fetch-error"}, Ops: []string{"add 1", "rel p", "rel p", "fail 0", "add 2", "rel p", "rel p", "fin 0", "take 9", "add 3", "rel p", "rel p", "fail 0", "add 4", "rel p", "rel p", "fin 0", "take 9"}},
				// timer expiries while the timeout goroutine is busy: the callbacks block on BatchTimedOut (two tokens pending, one
				// of them while the timeout flusher waits in Reserve on a full buffer) and are served one after the other
				{Header: "M C20 rf 3 1 1", Tags: []string{"pending-token"}, Ops: []string{"add 1", "fire", "rel t", "rel t", "add 2", "fire", "rel t", "rel t", "fire", "stale", "add 3", "fin 0", "take 9", "rel t", "rel t", "fin 0", "take 9", "rel t", "rel t", "fin 0", "take 9"}},
				{Header: "M C20 b 2 1", Tags: []string{"batcher"}, Ops: []string{"add 1", "fire", "add 2", "full", "flush cur", "stale", "flush 0", "add 3", "flush 0", "fire", "flush 1", "concat"}},
				// an Add parked inside its critical section while a time-out Flush of the same batch arrives, and the reverse
				{Header: "M C20 b 3 1", Tags: []string{"overlap"}, Ops: []string{"padd 1", "try flush 0", "unpark", "add 2", "pflush cur", "try add 3", "unpark", "padd 4", "try full", "unpark", "concat"}},
			}
		},
		Gen: func(r *lib.Rng, tier string, i int) lib.Case {
			if i%4 == 0 {
				return c20GenBatcher(r, tier)
			}
			return c20GenReorder(r, tier)
		},
		Impl: c20Impl,
		Nontrivial: func(c lib.Case, implOut []string) bool {
			if strings.Contains(c.Header, " b ") {
				for i, o := range c.Ops {
					if strings.HasPrefix(o, "flush ") && o != "flush cur" && implOut[i] == "-" {
						return true
					}
				}
				return false
			}
			lastSeq := -1
			for _, o := range implOut {
				if strings.Contains(o, "p=L") || strings.Contains(o, "t=L") || strings.Contains(o, "p=C") || strings.Contains(o, "t=C") {
					return true
				}
				if strings.Contains(o, " pend=") && !strings.Contains(o, " pend=0") {
					return true // a sender blocked on the full Output channel, holding the buffer mutex
				}
				if strings.Contains(o, " errs=") && !strings.Contains(o, " errs=0") {
					return true
				}
				if strings.Contains(o, " tok=") && !strings.Contains(o, " tok=0") {
					return true // a timer callback blocked on BatchTimedOut while the timeout goroutine was busy
				}
				if strings.HasPrefix(o, "seq=") {
					q, _ := strconv.Atoi(strings.Fields(o[4:])[0])
					if q < lastSeq {
						return true
					}
					lastSeq = q
				}
			}
			return false
		},
	}
}
