package main

// C02 — barrier alignment gives every operator checkpoint a consistent cut.
//
// Trace validation (T3) of the real operator.Operator: K sender goroutines call HandleEventBatch (one event per
// call) on the real operator; the verif hook points "operator.parked" / "operator.aligned" tell the harness
// whether a sender parked on the checkpoint or passed alignment, and the "aligned" hook holds the sender in
// front of `o.events <- …` until the schedule says `go`. The reference handler appends what it is given to the
// key's state, the fake Job re-opens the reported DKV checkpoint and reads its contents.

import (
	"context"
	"fmt"
	"io"
	"log/slog"
	"os"
	"regexp"
	"sort"
	"strconv"
	"strings"
	"sync"
	"sync/atomic"
	"time"

	"google.golang.org/protobuf/types/known/timestamppb"
	"reduction.dev/reduction-protocol/handlerpb"
	"reduction.dev/reduction/batching"
	"reduction.dev/reduction/connectors/embedded"
	"reduction.dev/reduction/dkv"
	"reduction.dev/reduction/dkv/recovery"
	"reduction.dev/reduction/dkv/storage"
	"reduction.dev/reduction/partitioning"
	"reduction.dev/reduction/proto"
	"reduction.dev/reduction/proto/jobpb"
	"reduction.dev/reduction/proto/snapshotpb"
	"reduction.dev/reduction/proto/workerpb"
	"reduction.dev/reduction/rpc"
	"reduction.dev/reduction/util/size"
	"reduction.dev/reduction/util/verifhook"
	"reduction.dev/reduction/workers/operator"
	"verif/harness/lib"
)

func init() { register("C02", propC02) }

// c02Wait bounds every wait for the real code. A correct operator never comes near it; once several cases have
// run into it (the implementation is broken and the violation is already certain) later cases wait less.
var c02Wait = 3 * time.Second
var c02TimedOutCases = 0

const (
	c02OpID    = "op1"
	c02Settle  = 2 * time.Millisecond
	c02HookPfx = "operator."
)

// ---------------------------------------------------------------------------------------------------------
// implementation side

type c02Timer struct {
	mu         sync.Mutex
	last, prev func()
}

func (t *c02Timer) Set(d time.Duration, do func()) {
	t.mu.Lock()
	defer t.mu.Unlock()
	t.prev, t.last = t.last, do
}
func (t *c02Timer) Stop() {}

type c02Run struct {
	mu      sync.Mutex
	k       int
	log     []string // observations produced by the consumer goroutine during the current op
	snaps   int
	keys    map[string]bool
	dir     string
	hookCh  []chan string   // per sender: "parked" | "gate"
	gate    []chan struct{} // per sender: release of the "aligned" hook
	work    []chan []*workerpb.Event
	rest    [][]string // per sender: kinds of the events of its HandleEventBatch call not yet handed to HandleEvent
	cancels []context.CancelFunc
	done    []chan error
	status  []byte // '-' idle, 'p' at the gate, 'k' parked
	quit    chan struct{}
	keySp    *partitioning.KeySpace
	spurious []string
	inflight []string // per sender: the item kind the harness handed to it ("ev" | "wm" | "bar <id>")
	failNext bool     // the fake job fails the next acknowledgement
	dbFail   atomic.Bool // the next file the DKV saves fails (db.Checkpoint fails)
	deploys  int
	ckIDs    map[uint64]bool // checkpoint ids written to the DKV in this deployment
	active   []bool // senders that have not sent SourceComplete in this deployment
	gone     bool   // the operator stopped itself (no active source left)
	// the consumer held at the batcher.flush hook inside the last barrier's handler
	holdArmed atomic.Bool
	heldCh    chan struct{}
	resumeCh  chan struct{}
	held      int   // sender whose completing barrier is being handled, -1 = not held
	queue     []int // senders released past the gate while held
	early     []string
	blockedS  []int      // senders whose new call was started while held (must block on the read lock)
	blockedK  [][]string // their event kinds
}

func (r *c02Run) addLog(s string) {
	r.mu.Lock()
	defer r.mu.Unlock()
	r.log = append(r.log, s)
}

func (r *c02Run) takeLog() []string {
	r.mu.Lock()
	defer r.mu.Unlock()
	l := r.log
	r.log = nil
	return l
}

// reference handler: per key, append one record per event; ask for a timer at t when a keyed event carries t != 0
type c02Handler struct{ r *c02Run }

func (h *c02Handler) KeyEventBatch(ctx context.Context, events [][]byte) ([][]*handlerpb.KeyedEvent, error) {
	panic("unused by operators")
}

func c02KV(m map[string][]byte) string {
	var ks []string
	for k, v := range m {
		if len(v) > 0 {
			ks = append(ks, k)
		}
	}
	sort.Strings(ks) // byte order of the raw keys
	parts := make([]string, len(ks))
	for i, k := range ks {
		parts[i] = lib.Hex([]byte(k)) + "=" + lib.Hex(m[k])
	}
	return strings.Join(parts, ",")
}

func (h *c02Handler) ProcessEventBatch(ctx context.Context, req *handlerpb.ProcessEventBatchRequest) (*handlerpb.ProcessEventBatchResponse, error) {
	states := map[string][]byte{}
	for _, ks := range req.KeyStates {
		var v []byte
		for _, ns := range ks.StateEntryNamespaces {
			if ns.Namespace == "log" && len(ns.Entries) > 0 {
				v = append([]byte(nil), ns.Entries[0].Value...)
			}
		}
		if _, dup := states[string(ks.Key)]; dup {
			return nil, fmt.Errorf("duplicate key state")
		}
		states[string(ks.Key)] = v
	}
	given := c02KV(states)
	var order []string
	seen := map[string]bool{}
	timers := map[string][]*timestamppb.Timestamp{}
	var evs []string
	for _, e := range req.Events {
		switch t := e.Event.(type) {
		case *handlerpb.Event_KeyedEvent:
			k := string(t.KeyedEvent.Key)
			v := t.KeyedEvent.Value
			if len(v) != 2 {
				return nil, fmt.Errorf("bad value")
			}
			if _, ok := states[k]; !ok {
				evs = append(evs, "nostate")
			}
			states[k] = append(states[k], v[0])
			if v[1] != 0 {
				timers[k] = append(timers[k], timestamppb.New(time.UnixMilli(int64(v[1]))))
			}
			if !seen[k] {
				seen[k] = true
				order = append(order, k)
			}
			evs = append(evs, fmt.Sprintf("u:%s:%d:%d", lib.Hex(t.KeyedEvent.Key), v[0], v[1]))
		case *handlerpb.Event_TimerExpired:
			k := string(t.TimerExpired.Key)
			ts := t.TimerExpired.Timestamp.AsTime().UnixMilli()
			if _, ok := states[k]; !ok {
				evs = append(evs, "nostate")
			}
			states[k] = append(states[k], 0xff, byte(ts))
			if !seen[k] {
				seen[k] = true
				order = append(order, k)
			}
			evs = append(evs, fmt.Sprintf("t:%s:%d", lib.Hex(t.TimerExpired.Key), ts))
		}
	}
	wm := int64(0)
	if req.Watermark != nil {
		if ms := req.Watermark.AsTime().UnixMilli(); ms > 0 { // the registry starts at the zero time.Time
			wm = ms
		}
	}
	h.r.addLog(fmt.Sprintf("H(%d|%s|%s)", wm, strings.Join(evs, ","), given))
	resp := &handlerpb.ProcessEventBatchResponse{}
	for _, k := range order {
		resp.KeyResults = append(resp.KeyResults, &handlerpb.KeyResult{
			Key:       []byte(k),
			NewTimers: timers[k],
			StateMutationNamespaces: []*handlerpb.StateMutationNamespace{{
				Namespace: "log",
				Mutations: []*handlerpb.StateMutation{{Mutation: &handlerpb.StateMutation_Put{
					Put: &handlerpb.PutMutation{Key: []byte("v"), Value: states[k]}}}},
			}},
		})
	}
	return resp, nil
}

var _ proto.Handler = (*c02Handler)(nil)

// fake job: re-opens the reported DKV checkpoint and records its contents, then the ack
type c02Job struct {
	proto.NoopJob
	r *c02Run
}

func (j *c02Job) RegisterOperator(context.Context, *jobpb.NodeIdentity) error   { return nil }
func (j *c02Job) DeregisterOperator(context.Context, *jobpb.NodeIdentity) error { return nil }

func (j *c02Job) OperatorCheckpointComplete(ctx context.Context, req *snapshotpb.OperatorCheckpoint) error {
	r := j.r
	r.mu.Lock()
	dup := r.ckIDs[req.CheckpointId]
	if r.ckIDs == nil {
		r.ckIDs = map[uint64]bool{}
	}
	r.ckIDs[req.CheckpointId] = true
	r.mu.Unlock()
	desc := func() (out string) {
		if dup {
			// the DKV looks a checkpoint up by id: a second one with a reused id cannot be read back
			return "S(" + strconv.FormatUint(req.CheckpointId, 10) + "|dup)"
		}
		defer func() {
			if p := recover(); p != nil {
				out = "S(" + strconv.FormatUint(req.CheckpointId, 10) + "|unreadable " + strings.ReplaceAll(fmt.Sprint(p), " ", "_") + ")"
			}
		}()
		fs, err := storage.NewFileSystemFromLocation(storage.Join(r.deployDir(), c02OpID))
		if err != nil {
			panic(err)
		}
		db := dkv.Open(dkv.DBOptions{FileSystem: fs}, []recovery.CheckpointHandle{{CheckpointID: req.CheckpointId, URI: req.DkvFileUri}})
		store := operator.NewKeyedStateStore(db, r.keySp)
		states := map[string][]byte{}
		r.mu.Lock()
		var keys []string
		for k := range r.keys {
			keys = append(keys, k)
		}
		r.mu.Unlock()
		for _, k := range keys {
			nss, err := store.GetState([]byte(k))
			if err != nil {
				panic(err)
			}
			for _, ns := range nss {
				if ns.Namespace == "log" && len(ns.Entries) > 0 {
					states[k] = ns.Entries[0].Value
				}
			}
		}
		ts := operator.NewTimerStore(db, r.keySp, r.keySp.KeyGroupRanges()[0], size.GB)
		type tm struct {
			ts  int64
			key string
		}
		var tms []tm
		for i := 0; i < 100000; i++ {
			t, ok := ts.Pop()
			if !ok {
				break
			}
			tms = append(tms, tm{t.Timestamp.UnixMilli(), string(t.Key)})
		}
		sort.Slice(tms, func(a, b int) bool {
			if tms[a].ts != tms[b].ts {
				return tms[a].ts < tms[b].ts
			}
			return tms[a].key < tms[b].key
		})
		parts := make([]string, len(tms))
		for i, t := range tms {
			parts[i] = fmt.Sprintf("%d:%s", t.ts, lib.Hex([]byte(t.key)))
		}
		return fmt.Sprintf("S(%d|%s|%s)", req.CheckpointId, c02KV(states), strings.Join(parts, ","))
	}()
	r.mu.Lock()
	defer r.mu.Unlock()
	r.snaps++
	if r.failNext {
		r.failNext = false
		r.log = append(r.log, desc, fmt.Sprintf("ackfail:%d", req.CheckpointId))
		return errC02JobUnreachable
	}
	r.log = append(r.log, desc, fmt.Sprintf("ack:%d", req.CheckpointId))
	return nil
}

var errC02JobUnreachable = fmt.Errorf("verif: job unreachable")
var errC02Storage = fmt.Errorf("verif: storage unavailable")

// c02FailFS wraps the deployment's file system: while armed, the next Save fails once
type c02FailFS struct {
	storage.FileSystem
	r *c02Run
}

type c02FailFile struct {
	storage.File
	r *c02Run
}

func (f *c02FailFS) New(path string) storage.File {
	return &c02FailFile{File: f.FileSystem.New(path), r: f.r}
}

func (f *c02FailFile) Save() error {
	if f.r.dbFail.CompareAndSwap(true, false) {
		f.r.addLog("@dbfail") // position of the failure among the consumer's observations
		return errC02Storage
	}
	return f.File.Save()
}

func (r *c02Run) deployDir() string { return fmt.Sprintf("%s/dep%d", r.dir, r.deploys) }

func c02SenderIdx(payload []any) int {
	if len(payload) == 0 {
		return -1
	}
	s, ok := payload[0].(string)
	if !ok || !strings.HasPrefix(s, "s") {
		return -1
	}
	i, err := strconv.Atoi(s[1:])
	if err != nil {
		return -1
	}
	return i
}

var c02Mismatch = regexp.MustCompile(`checkpoint ID mismatch, had (\d+) got (\d+)`)

var c02Serial sync.Mutex // one case at a time: the hook handler is global

func c02Impl(c lib.Case) []string {
	c02Serial.Lock()
	defer c02Serial.Unlock()
	slog.SetDefault(slog.New(slog.NewTextHandler(io.Discard, nil))) // the operator logs every deploy/stop
	hdr := strings.Fields(c.Header)
	kd, b, z := 1, 1, 0 // deployed runners, handler batch size, callers that are not deployed runners
	if len(hdr) >= 4 {
		kd, _ = strconv.Atoi(hdr[2])
		b, _ = strconv.Atoi(hdr[3])
	}
	if len(hdr) >= 5 {
		z, _ = strconv.Atoi(hdr[4])
	}
	if kd < 1 || kd > 16 || z < 0 || z > 4 {
		return []string{"bad-header"}
	}
	k := kd + z // all callers: senders kd..k-1 are not among the SourceRunnerIds
	dir, err := os.MkdirTemp("", "c02-")
	if err != nil {
		return []string{"tmpdir " + err.Error()}
	}
	defer os.RemoveAll(dir)
	r := &c02Run{k: k, keys: map[string]bool{}, dir: dir, quit: make(chan struct{}), keySp: partitioning.NewKeySpace(256, 1), status: make([]byte, k),
		heldCh: make(chan struct{}, 1), resumeCh: make(chan struct{}), held: -1}
	srIDs := make([]string, k)
	for i := 0; i < k; i++ {
		srIDs[i] = "s" + strconv.Itoa(i)
		r.hookCh = append(r.hookCh, make(chan string, 8))
		r.gate = append(r.gate, make(chan struct{}))
		r.work = append(r.work, make(chan []*workerpb.Event))
		r.rest = append(r.rest, nil)
		r.cancels = append(r.cancels, nil)
		r.done = append(r.done, make(chan error, 1))
		r.status[i] = '-'
		r.inflight = append(r.inflight, "")
		r.active = append(r.active, true)
	}
	timer := &c02Timer{}
	op := operator.NewOperator(operator.NewOperatorParams{
		ID:            c02OpID,
		UserHandler:   &c02Handler{r: r},
		Job:           &c02Job{r: r},
		EventBatching: batching.EventBatcherParams{MaxSize: b, MaxDelay: time.Hour, Timer: timer},
	})
	ctx, cancel := context.WithCancel(context.Background())
	go func() { op.Start(ctx) }()
	defer func() {
		verifhook.Set(nil)
		close(r.quit)
		cancel()
	}()
	deploy := func() error {
		if err := op.HandleDeploy(ctx, &workerpb.DeployOperatorRequest{
			Operators:       []*jobpb.NodeIdentity{{Id: c02OpID, Host: "h"}},
			SourceRunnerIds: srIDs[:kd],
			KeyGroupCount:   256,
			StorageLocation: r.deployDir(),
		}, &embedded.RecordingSink{}); err != nil {
			return err
		}
		// same (still empty) storage, behind a wrapper that can make db.Checkpoint fail
		fs, err := storage.NewFileSystemFromLocation(storage.Join(r.deployDir(), c02OpID))
		if err != nil {
			return err
		}
		op.VerifUseFileSystem(&c02FailFS{FileSystem: fs, r: r})
		return nil
	}
	if err := deploy(); err != nil {
		return []string{"deploy " + err.Error()}
	}
	syncConsumer := func() bool {
		ch := make(chan struct{})
		go func() { op.VerifSync(); close(ch) }()
		select {
		case <-ch:
			return true
		case <-time.After(c02Wait):
			return false
		}
	}
	syncConsumerFor := func(d time.Duration) bool {
		ch := make(chan struct{})
		go func() { op.VerifSync(); close(ch) }()
		select {
		case <-ch:
			return true
		case <-time.After(d):
			return false
		}
	}
	if !syncConsumer() {
		return []string{"consumer-not-started"}
	}
	verifhook.Set(func(label string, payload []any) {
		if label == "batcher.flush" {
			// only the operator's consumer flushes here; stop it when the schedule asked for a hold
			if r.holdArmed.CompareAndSwap(true, false) {
				select {
				case r.heldCh <- struct{}{}:
				case <-r.quit:
					return
				}
				select {
				case <-r.resumeCh:
				case <-r.quit:
				}
			}
			return
		}
		if !strings.HasPrefix(label, c02HookPfx) {
			return
		}
		i := c02SenderIdx(payload)
		if i < 0 || i >= k {
			return
		}
		switch label {
		case "operator.parked":
			select {
			case r.hookCh[i] <- "parked":
			case <-r.quit:
			}
		case "operator.aligned":
			select {
			case r.hookCh[i] <- "gate":
			case <-r.quit:
				return
			}
			select {
			case <-r.gate[i]:
			case <-r.quit:
			}
		}
	})
	for i := 0; i < k; i++ {
		i := i
		client := rpc.NewOperatorEmbeddedClient(rpc.NewOperatorEmbeddedClientParams{Operator: op, SenderID: srIDs[i], ID: c02OpID})
		go func() {
			for {
				select {
				case batch := <-r.work[i]:
					cctx, cancel := context.WithCancel(ctx) // the context of this one RPC
					r.mu.Lock()
					r.cancels[i] = cancel
					r.mu.Unlock()
					err := func() (err error) {
						defer func() {
							if p := recover(); p != nil {
								err = fmt.Errorf("panic %v", p)
							}
						}()
						return client.HandleEventBatch(cctx, batch)
					}()
					cancel()
					select {
					case r.done[i] <- err:
					case <-r.quit:
						return
					}
				case <-r.quit:
					return
				}
			}
		}()
	}
	// senders the harness believes parked that show up at the gate without a completed checkpoint
	drain := func() {
		for i := 0; i < k; i++ {
			if r.status[i] != 'k' {
				continue
			}
			select {
			case ev := <-r.hookCh[i]:
				if ev == "gate" {
					r.status[i] = 'p'
					r.spurious = append(r.spurious, "spurious-release:"+strconv.Itoa(i))
				}
			default:
			}
		}
	}
	withSpurious := func(s string) string {
		if len(r.spurious) > 0 {
			s += " " + strings.Join(r.spurious, " ")
			r.spurious = nil
		}
		return s
	}
	// classify turns sender i's first hook event of a HandleEvent call into passed/parked
	classify := func(i int, h string) string {
		if h == "parked" && op.VerifCheckpointReleased() {
			// the record's channel is already closed: the wait returns at once and the call reaches the gate
			select {
			case h = <-r.hookCh[i]:
			case err := <-r.done[i]:
				r.status[i] = '-'
				r.rest[i] = nil
				return "returned:" + c02Err(err)
			case <-time.After(c02Wait):
				return "timeout"
			}
		}
		if h == "parked" {
			r.status[i] = 'k'
			return "parked"
		}
		r.status[i] = 'p'
		return "passed"
	}
	send := func(i int, batch []*workerpb.Event, kinds []string) string {
		if r.status[i] != '-' {
			return "busy"
		}
		select {
		case r.work[i] <- batch:
		case <-time.After(c02Wait):
			return "timeout"
		}
		select {
		case h := <-r.hookCh[i]:
			res := classify(i, h)
			if res == "passed" || res == "parked" {
				r.inflight[i] = kinds[0]
				r.rest[i] = append([]string(nil), kinds[1:]...)
			}
			return res
		case err := <-r.done[i]:
			if err != nil && strings.Contains(err.Error(), "not a source runner") {
				return "refused" // the operator turns callers away that are not runners of the deployment (repair of D69)
			}
			return "returned:" + c02Err(err)
		case <-time.After(c02Wait):
			return "timeout"
		}
	}
	// continueCall: after the outcome of the current event has been recorded, account for the call's progress
	continueCall := func(i int, hook string) string {
		if hook == "" {
			r.rest[i] = nil
			return ""
		}
		if len(r.rest[i]) == 0 {
			// the call went on although the batch was exhausted: should be impossible
			return " next:unexpected-" + classify(i, hook)
		}
		r.inflight[i] = r.rest[i][0]
		r.rest[i] = r.rest[i][1:]
		return " next:" + classify(i, hook)
	}
	mkEvent := func(w []string) (*workerpb.Event, string, bool) {
		switch {
		case len(w) == 4 && w[0] == "ev":
			key := lib.UnHex(w[1])
			p, _ := strconv.Atoi(w[2])
			t, _ := strconv.Atoi(w[3])
			r.mu.Lock()
			r.keys[string(key)] = true
			r.mu.Unlock()
			return &workerpb.Event{Event: &workerpb.Event_KeyedEvent{KeyedEvent: &handlerpb.KeyedEvent{Key: key, Value: []byte{byte(p), byte(t)}}}}, "ev", true
		case len(w) == 2 && w[0] == "wm":
			ts, _ := strconv.Atoi(w[1])
			return &workerpb.Event{Event: &workerpb.Event_Watermark{Watermark: &workerpb.Watermark{Timestamp: timestamppb.New(time.UnixMilli(int64(ts)))}}}, "wm", true
		case len(w) == 2 && w[0] == "bar":
			id, _ := strconv.ParseUint(w[1], 10, 64)
			return &workerpb.Event{Event: &workerpb.Event_CheckpointBarrier{CheckpointBarrier: &workerpb.CheckpointBarrier{CheckpointId: id}}}, "bar " + strconv.FormatUint(id, 10), true
		case len(w) == 1 && w[0] == "done":
			return &workerpb.Event{Event: &workerpb.Event_SourceComplete{SourceComplete: &workerpb.SourceCompleteEvent{}}}, "done", true
		}
		return nil, "", false
	}
	// the observable outcome of sender i's HandleEvent call having returned with herr
	finishGo := func(i int, herr error, snapsBefore int, withRel bool) string {
		r.status[i] = '-'
		parts := []string{"ok"}
		log := r.takeLog()
		dbFailed := herr != nil && strings.Contains(herr.Error(), errC02Storage.Error()) && strings.HasPrefix(r.inflight[i], "bar ")
		if dbFailed {
			// db.Checkpoint could not write: the handler returned before calling the job; the DKV's checkpoint list
			// nevertheless holds the id already
			id := strings.TrimPrefix(r.inflight[i], "bar ")
			parts = append(parts, "reg:"+id)
			for n := range log {
				if log[n] == "@dbfail" {
					log[n] = "ackfail:" + id
				}
			}
			n, _ := strconv.ParseUint(id, 10, 64)
			r.mu.Lock()
			r.failNext = false
			if r.ckIDs == nil {
				r.ckIDs = map[uint64]bool{}
			}
			r.ckIDs[n] = true
			r.mu.Unlock()
		} else if herr != nil && strings.Contains(herr.Error(), errC02JobUnreachable.Error()) && strings.HasPrefix(r.inflight[i], "bar ") {
			parts = append(parts, "reg:"+strings.TrimPrefix(r.inflight[i], "bar ")) // the error is the failed ack, reported in the log
		} else if herr != nil {
			if m := c02Mismatch.FindStringSubmatch(herr.Error()); m != nil {
				parts = append(parts, "reject:"+m[2]+":"+m[1])
			} else {
				parts = append(parts, "err:"+c02Err(herr))
			}
		} else if strings.HasPrefix(r.inflight[i], "bar ") && (i < kd || func() bool { r.mu.Lock(); defer r.mu.Unlock(); return r.snaps > snapsBefore }()) {
			// (the barrier of a caller that is no deployed runner is accepted without being registered for anybody —
			// unless it re-runs the completion of a record left complete by a failed ack)
			parts = append(parts, "reg:"+strings.TrimPrefix(r.inflight[i], "bar "))
		}
		parts = append(parts, log...)
		if r.inflight[i] == "done" && herr == nil {
			parts = append(parts, "completed")
			if i < kd {
				r.active[i] = false
			}
			any := false
			for _, a := range r.active[:kd] {
				any = any || a
			}
			if !any && !syncConsumerFor(200*time.Millisecond) {
				parts = append(parts, "stopped") // no active source left: the consumer is gone
				r.gone = true
			}
		}
		r.mu.Lock()
		completed := r.snaps > snapsBefore || dbFailed
		r.mu.Unlock()
		if completed && withRel {
			var rel []string
			for j := 0; j < k; j++ {
				if r.status[j] != 'k' {
					continue
				}
				select {
				case ev := <-r.hookCh[j]:
					if ev == "gate" {
						r.status[j] = 'p'
						rel = append(rel, strconv.Itoa(j))
					}
				case <-time.After(c02Wait):
				}
			}
			parts = append(parts, "rel:"+strings.Join(rel, "."))
		}
		return strings.Join(parts, " ")
	}
	out := make([]string, 0, len(c.Ops))
	timedOut := false
	for _, line := range c.Ops {
		f := strings.Fields(line)
		if timedOut {
			out = append(out, "skipped-after-timeout")
			continue
		}
		if r.gone {
			// the operator stopped itself; only ops that do not need the consumer still answer
			switch {
			case len(f) >= 1 && f[0] == "go":
				out = append(out, "noop")
			case len(f) == 1 && (f[0] == "tick" || f[0] == "stale"):
				out = append(out, "none")
			case len(f) == 1 && f[0] == "state":
				out = append(out, "gone")
			default:
				out = append(out, "gone")
			}
			continue
		}
		drain()
		res := "bad-op"
		if r.held >= 0 {
			// the consumer is stopped inside handleCheckpointBarrier (holding o.mu): only senders already past
			// alignment can move, everything else would block
			switch {
			case len(f) == 2 && f[0] == "go":
				x, err := strconv.Atoi(f[1])
				res = "noop"
				if err == nil && x >= 0 && x < kd && len(r.queue) == 0 && x != r.held && r.status[x] == 'p' && len(r.rest[x]) == 0 &&
					(r.inflight[x] == "ev" || r.inflight[x] == "wm") {
					select {
					case r.gate[x] <- struct{}{}:
						r.queue = []int{x}
						res = "queued"
						select { // it must now wait on the busy consumer; give a wrong implementation time to show itself
						case herr := <-r.done[x]:
							// reported with the snapshot at `resume`, where the property-level effect shows
							r.status[x] = '-'
							r.queue = nil
							r.early = append(r.early, fmt.Sprintf("returned-before-capture:%d:%s", x, c02Err(herr)))
						case <-time.After(20 * time.Millisecond):
						}
					case <-time.After(c02Wait):
						res = "timeout"
					}
				}
			case len(f) == 1 && f[0] == "resume":
				i := r.held
				select {
				case r.resumeCh <- struct{}{}:
				case <-time.After(c02Wait):
					res = "timeout"
				}
				if res == "timeout" {
					break
				}
				var herr error
				select {
				case herr = <-r.done[i]:
				case <-time.After(c02Wait):
					res = "timeout"
				}
				if res == "timeout" {
					break
				}
				for _, x := range r.queue {
					select {
					case <-r.done[x]:
						r.status[x] = '-'
					case <-time.After(c02Wait):
						res = "timeout"
					}
				}
				if res == "timeout" {
					break
				}
				r.held, r.queue = -1, nil
				res = finishGo(i, herr, 0, false)
				for n, b := range r.blockedS {
					select { // the blocked call gets the read lock now and is aligned
					case h := <-r.hookCh[b]:
						res += " " + classify(b, h)
						r.inflight[b], r.rest[b] = r.blockedK[n][0], append([]string(nil), r.blockedK[n][1:]...)
					case herr := <-r.done[b]:
						r.status[b] = '-'
						res += " returned:" + c02Err(herr)
					case <-time.After(c02Wait):
						res += " timeout"
					}
				}
				r.blockedS, r.blockedK = nil, nil
				if len(r.early) > 0 {
					res += " " + strings.Join(r.early, " ")
					r.early = nil
				}
			case len(f) >= 3 && (f[0] == "send" || f[0] == "sendb"):
				// a new call while the barrier handler holds o.mu: it must block before any alignment decision
				i, err := strconv.Atoi(f[1])
				var batch []*workerpb.Event
				var kinds []string
				okItems := err == nil
				if f[0] == "send" {
					ev, kind, ok := mkEvent(f[2:])
					okItems = okItems && ok
					batch, kinds = []*workerpb.Event{ev}, []string{kind}
				} else {
					for _, w := range f[2:] {
						ev, kind, ok := mkEvent(strings.Split(w, ":"))
						okItems = okItems && ok
						batch, kinds = append(batch, ev), append(kinds, kind)
					}
				}
				if !okItems || i < 0 || i >= k {
					res = "bad-op"
					break
				}
				res = "consumer-held"
				if len(r.blockedS) == 0 && r.status[i] == '-' && i < kd {
					select {
					case r.work[i] <- batch:
					case <-time.After(c02Wait):
						res = "timeout"
					}
					if res == "timeout" {
						break
					}
					r.blockedS, r.blockedK = []int{i}, [][]string{kinds}
					r.status[i] = 'b'
					res = "blocked"
					select {
					case h := <-r.hookCh[i]:
						res = "blocked aligned-while-held:" + classify(i, h)
						r.inflight[i], r.rest[i] = kinds[0], append([]string(nil), kinds[1:]...)
						r.blockedS, r.blockedK = nil, nil
					case herr := <-r.done[i]:
						res = "blocked returned-while-held:" + c02Err(herr)
						r.status[i] = '-'
						r.blockedS, r.blockedK = nil, nil
					case <-time.After(20 * time.Millisecond):
					}
				}
			default:
				res = "consumer-held"
			}
			if strings.Contains(res, "timeout") {
				timedOut = true
			}
			out = append(out, withSpurious(res))
			continue
		}
		if len(f) == 1 && f[0] == "resume" {
			out = append(out, "noop")
			continue
		}
		hold := false
		if len(f) == 2 && f[0] == "gohold" {
			f[0] = "go"
			if i, err := strconv.Atoi(f[1]); err == nil && i >= 0 && i < k && i < kd && r.status[i] == 'p' && strings.HasPrefix(r.inflight[i], "bar ") && len(r.rest[i]) == 0 {
				hold = true
			}
		}
		switch {
		case len(f) >= 3 && (f[0] == "send" || f[0] == "sendb"):
			i, err := strconv.Atoi(f[1])
			if err != nil {
				break
			}
			var batch []*workerpb.Event
			var kinds []string
			okItems := true
			if f[0] == "send" {
				ev, kind, ok := mkEvent(f[2:])
				okItems = ok
				batch, kinds = []*workerpb.Event{ev}, []string{kind}
			} else {
				for _, w := range f[2:] {
					ev, kind, ok := mkEvent(strings.Split(w, ":"))
					okItems = okItems && ok
					batch, kinds = append(batch, ev), append(kinds, kind)
				}
			}
			if !okItems || i < 0 || i >= k {
				break
			}
			res = send(i, batch, kinds)
		case len(f) == 2 && f[0] == "cancel":
			i, err := strconv.Atoi(f[1])
			res = "noop"
			if err != nil || i < 0 || i >= k || r.status[i] == '-' {
				break
			}
			r.mu.Lock()
			cancel := r.cancels[i]
			r.mu.Unlock()
			if cancel != nil {
				cancel()
			}
			if r.status[i] == 'k' {
				time.Sleep(20 * time.Millisecond) // a parked call must stay parked; give a wrong implementation time to move
				drain()
			}
			res = "cancelled"
		case len(f) == 2 && f[0] == "go":
			i, err := strconv.Atoi(f[1])
			if err != nil || i < 0 || i >= k {
				if err == nil {
					res = "noop"
				}
				break
			}
			if r.status[i] != 'p' {
				res = "noop"
				break
			}
			r.takeLog()
			snapsBefore := r.snaps
			r.holdArmed.Store(hold)
			hook := ""
			select {
			case r.gate[i] <- struct{}{}:
			case <-time.After(c02Wait):
				res = "timeout"
			}
			if res == "timeout" {
				break
			}
			var herr error
			select {
			case herr = <-r.done[i]:
				r.holdArmed.Store(false) // the barrier did not complete the checkpoint: nothing was flushed
			case hook = <-r.hookCh[i]:
				r.holdArmed.Store(false) // the call went on with its next event
			case <-r.heldCh:
				// the consumer is inside the last barrier's handler, the parked senders have been woken
				var rel []string
				for j := 0; j < k; j++ {
					if r.status[j] != 'k' {
						continue
					}
					select {
					case ev := <-r.hookCh[j]:
						if ev == "gate" {
							r.status[j] = 'p'
							rel = append(rel, strconv.Itoa(j))
						}
					case <-time.After(c02Wait):
					}
				}
				r.held = i
				res = "held rel:" + strings.Join(rel, ".")
			case <-time.After(c02Wait):
				res = "timeout"
			}
			if res == "timeout" || r.held >= 0 {
				break
			}
			res = finishGo(i, herr, snapsBefore, true)
			if !r.gone {
				res += continueCall(i, hook)
			}
			break
		case len(f) == 1 && (f[0] == "tick" || f[0] == "stale"):
			timer.mu.Lock()
			cb := timer.last
			if f[0] == "stale" {
				cb = timer.prev
			}
			timer.mu.Unlock()
			if cb == nil {
				res = "none"
				break
			}
			r.takeLog()
			ch := make(chan struct{})
			go func() { cb(); close(ch) }()
			select {
			case <-ch:
			case <-time.After(c02Wait):
				res = "timeout"
			}
			if res == "timeout" {
				break
			}
			if !syncConsumer() {
				res = "timeout"
				break
			}
			log := r.takeLog()
			if len(log) == 0 {
				res = "none"
			} else {
				res = strings.Join(log, " ")
			}
		case len(f) == 1 && f[0] == "failckpt":
			r.dbFail.Store(true)
			res = "armed"
		case len(f) == 1 && f[0] == "failnext":
			r.mu.Lock()
			r.failNext = true
			r.mu.Unlock()
			res = "armed"
		case len(f) == 1 && f[0] == "redeploy":
			r.mu.Lock()
			r.deploys++
			r.ckIDs = nil
			r.mu.Unlock()
			if err := deploy(); err != nil {
				res = "deploy-error:" + c02Err(err)
				break
			}
			var ab []string
			for j := 0; j < k; j++ {
				r.active[j] = true
				if r.status[j] != 'k' {
					continue
				}
				select { // a sender parked on the abandoned checkpoint is turned away with an error
				case err := <-r.done[j]:
					r.rest[j] = nil
					if err != nil {
						r.status[j] = '-'
						ab = append(ab, strconv.Itoa(j))
					} else {
						r.status[j] = '-'
						ab = append(ab, strconv.Itoa(j)+"!accepted")
					}
				case ev := <-r.hookCh[j]:
					if ev == "gate" {
						r.status[j] = 'p'
						ab = append(ab, strconv.Itoa(j)+"!released")
					}
				case <-time.After(c02Wait):
					ab = append(ab, strconv.Itoa(j)+"!stuck")
				}
			}
			res = "redeployed:" + strings.Join(ab, ".")
		case len(f) == 1 && f[0] == "state":
			time.Sleep(c02Settle)
			drain()
			ck := "-"
			if id, missing, ok := op.VerifCheckpointState(); ok {
				idx := make([]int, 0, len(missing))
				for _, m := range missing {
					n, _ := strconv.Atoi(strings.TrimPrefix(m, "s"))
					idx = append(idx, n)
				}
				sort.Ints(idx)
				ms := make([]string, len(idx))
				for a, n := range idx {
					ms[a] = strconv.Itoa(n)
				}
				ck = fmt.Sprintf("%d:%s", id, strings.Join(ms, "."))
			}
			res = "ck=" + ck + " slots=" + string(r.status)
		}
		if strings.Contains(res, "timeout") || strings.Contains(res, "!stuck") {
			timedOut = true
		}
		out = append(out, withSpurious(res))
	}
	for _, o := range out {
		if strings.Contains(o, "timeout") || strings.Contains(o, "!stuck") {
			c02TimedOutCases++
			if c02TimedOutCases >= 3 {
				c02Wait = 300 * time.Millisecond
			}
			break
		}
	}
	c02Count(out)
	return out
}

var c02Stats = map[string]int{}

func c02Count(out []string) {
	for _, o := range out {
		switch {
		case o == "parked":
			c02Stats["senders_parked"]++
		case o == "passed":
			c02Stats["senders_passed"]++
		case o == "busy":
			c02Stats["busy_calls"]++
		}
		c02Stats["snapshots_read_back"] += strings.Count(o, "S(")
		c02Stats["handler_calls"] += strings.Count(o, "H(")
		c02Stats["barriers_rejected"] += strings.Count(o, "reject:")
		c02Stats["timer_firings"] += strings.Count(o, "|t:") + strings.Count(o, ",t:")
		c02Stats["failed_acks"] += strings.Count(o, "ackfail:")
		c02Stats["source_completes"] += strings.Count(o, "completed")
		if strings.HasPrefix(o, "redeployed:") {
			c02Stats["redeploys"]++
			if o != "redeployed:" {
				c02Stats["redeploys_turning_parked_senders_away"]++
			}
		}
		if strings.Contains(o, "rel:") && !strings.HasSuffix(o, "rel:") {
			c02Stats["completions_releasing_parked_senders"]++
		}
		if strings.Contains(o, "S(") && strings.Contains(o, "H(") {
			c02Stats["completions_flushing_pending_batch"]++
		}
		if strings.Contains(o, "timeout") || strings.Contains(o, "spurious") {
			c02Stats["timeouts_or_spurious"]++
		}
	}
}

func c02Err(err error) string {
	if err == nil {
		return "nil"
	}
	s := strings.ReplaceAll(err.Error(), " ", "_")
	if len(s) > 80 {
		s = s[:80]
	}
	return s
}

// ---------------------------------------------------------------------------------------------------------
// generator (pure): per-sender scripts + an interleaving chosen with the generator's own bookkeeping of which
// senders are idle / at the gate / parked (never calls the code under test)

type c02Sim struct {
	k       int // all callers
	kd      int // deployed runners (0 = all)
	scripts [][]string
	pos     []int
	status  []byte
	item    []string
	ckID    int
	missing map[int]bool
	inCk    bool
	fail    bool // next ack fails
	stale   bool // completed record left in place
	active  map[int]bool
	gone    bool
	batch   []int // per sender: events of the current HandleEventBatch call still to come
}

// completes reports whether sender i stands at the gate with the barrier that completes the checkpoint
func (s *c02Sim) deployed() int {
	if s.kd == 0 {
		return s.k
	}
	return s.kd
}

func (s *c02Sim) completes(i int) bool {
	if i >= s.deployed() {
		return false
	}
	it := strings.Fields(s.item[i])
	if s.status[i] != 'p' || len(it) != 2 || it[0] != "bar" {
		return false
	}
	id, _ := strconv.Atoi(it[1])
	if !s.inCk {
		return s.deployed() == 1
	}
	if id != s.ckID {
		return false
	}
	for j := range s.missing {
		if j != i {
			return false
		}
	}
	return true
}

func (s *c02Sim) redeploy() {
	s.inCk, s.stale = false, false
	for j := 0; j < s.k; j++ {
		if s.status[j] == 'k' {
			s.status[j] = '-'
			if s.batch != nil {
				s.batch[j] = 0
			}
		}
	}
	s.active = nil
}

func (s *c02Sim) send(i int) {
	s.item[i] = s.scripts[i][s.pos[i]]
	s.pos[i]++
	if s.inCk && !s.missing[i] && !s.stale {
		s.status[i] = 'k'
	} else {
		s.status[i] = 'p'
	}
}

// run: the consumer handles sender i's current event; then the sender's call goes on with its next event unless
// the event failed (mismatch, failed ack)
func (s *c02Sim) run(i int) {
	ok := s.run1(i)
	if s.batch == nil {
		return
	}
	if ok && !s.gone && s.batch[i] > 0 && s.pos[i] < len(s.scripts[i]) {
		s.batch[i]--
		s.send(i)
	} else {
		s.batch[i] = 0
	}
}

func (s *c02Sim) run1(i int) bool {
	it := strings.Fields(s.item[i])
	s.status[i] = '-'
	if it[0] == "done" {
		if s.active == nil {
			s.active = map[int]bool{}
			for j := 0; j < s.deployed(); j++ {
				s.active[j] = true
			}
		}
		delete(s.active, i)
		s.gone = len(s.active) == 0 && i < s.deployed()
		return true
	}
	if it[0] != "bar" {
		return true
	}
	id, _ := strconv.Atoi(it[1])
	if !s.inCk {
		s.inCk, s.ckID, s.missing = true, id, map[int]bool{}
		for j := 0; j < s.deployed(); j++ {
			s.missing[j] = true
		}
	}
	if id != s.ckID {
		return false
	}
	delete(s.missing, i)
	if len(s.missing) == 0 {
		failed := s.fail
		s.inCk, s.stale = s.fail, s.fail
		s.fail = false
		for j := 0; j < s.k; j++ {
			if s.status[j] == 'k' {
				s.status[j] = 'p'
			}
		}
		return !failed
	}
	return true
}

var c02Keys = []string{"61", "62", "6162", "00ff"}

func c02Scripts(r *lib.Rng, k int, kd int, tier string) [][]string {
	nb := r.Range(1, 3)
	maxEv := 4
	if tier == "thorough" {
		maxEv = 7
	}
	nkeys := r.Range(1, len(c02Keys))
	withTimers := r.Chance(1, 2)
	bad := r.Chance(1, 12) // occasionally one sender uses a wrong barrier id
	badSender := r.Intn(k)
	scripts := make([][]string, k)
	payload := 1
	for i := 0; i < k; i++ {
		var s []string
		wm := 0
		for bnum := 1; bnum <= nb+1; bnum++ {
			n := r.Intn(maxEv + 1)
			if r.Chance(1, 5) {
				n = 0 // consecutive barriers
			}
			for e := 0; e < n; e++ {
				if withTimers && r.Chance(1, 3) {
					wm += r.Range(0, 20)
					if r.Chance(1, 10) && wm > 3 {
						wm -= 3 // watermarks are not required to be monotone here
					}
					s = append(s, fmt.Sprintf("wm %d", wm%250))
					continue
				}
				ki := r.Intn(nkeys)
				t := 0
				if withTimers && r.Chance(1, 2) {
					// distinct keys never share a timer timestamp (firing order across key groups is C10's subject)
					t = r.Range(0, 6)*len(c02Keys) + ki + 1
				}
				s = append(s, fmt.Sprintf("ev %s %d %d", c02Keys[ki], payload%250+1, t))
				payload++
			}
			if bnum <= nb {
				id := bnum
				if bad && i == badSender && bnum == nb {
					id = bnum + 5
				}
				s = append(s, fmt.Sprintf("bar %d", id))
			}
		}
		if kd > 1 && i < kd-1 && r.Chance(1, 10) {
			s = append(s, "done") // bounded source finished (never all senders: the operator would stop itself)
		}
		scripts[i] = s
	}
	return scripts
}

func c02Schedule(r *lib.Rng, k int, kd int, scripts [][]string) []string {
	sim := &c02Sim{k: k, kd: kd, scripts: scripts, pos: make([]int, k), status: make([]byte, k), item: make([]string, k), batch: make([]int, k)}
	for i := range sim.status {
		sim.status[i] = '-'
	}
	var ops []string
	// bias: some cases let one sender run far ahead, others interleave finely
	weights := make([]int, k)
	for i := range weights {
		weights[i] = 1 + r.Intn(4)*r.Intn(3)
	}
	withFaults := r.Chance(1, 4) // failed acks and redeploys in a quarter of the cases
	for steps := 0; steps < 400 && !sim.gone; steps++ {
		type cand struct {
			kind string
			i    int
			w    int
		}
		var cs []cand
		for i := 0; i < k; i++ {
			switch {
			case sim.status[i] == '-' && sim.pos[i] < len(scripts[i]):
				cs = append(cs, cand{"send", i, 3 * weights[i]})
			case sim.status[i] == 'p':
				cs = append(cs, cand{"go", i, 3 * weights[i]})
			}
		}
		if len(cs) == 0 {
			break
		}
		cs = append(cs, cand{"tick", 0, 1}, cand{"noise", 0, 1})
		if withFaults {
			cs = append(cs, cand{"fault", 0, 1})
		}
		total := 0
		for _, c := range cs {
			total += c.w
		}
		x := r.Intn(total)
		var ch cand
		for _, c := range cs {
			if x < c.w {
				ch = c
				break
			}
			x -= c.w
		}
		switch ch.kind {
		case "send":
			// one HandleEventBatch call with 1..3 events; a barrier may sit anywhere in it
			n := 1
			if r.Chance(1, 2) {
				n = r.Range(2, 3)
			}
			if rem := len(scripts[ch.i]) - sim.pos[ch.i]; n > rem {
				n = rem
			}
			if n == 1 {
				ops = append(ops, fmt.Sprintf("send %d %s", ch.i, scripts[ch.i][sim.pos[ch.i]]))
			} else {
				words := []string{"sendb", strconv.Itoa(ch.i)}
				for _, it := range scripts[ch.i][sim.pos[ch.i] : sim.pos[ch.i]+n] {
					words = append(words, strings.ReplaceAll(it, " ", ":"))
				}
				ops = append(ops, strings.Join(words, " "))
			}
			sim.batch[ch.i] = n - 1
			sim.send(ch.i)
		case "go":
			if sim.completes(ch.i) && sim.batch[ch.i] == 0 && r.Chance(1, 3) {
				// stop the consumer between waking the parked senders and the flush+capture; let one woken (or
				// waiting) sender run on; resume
				ops = append(ops, fmt.Sprintf("gohold %d", ch.i))
				var cand []int
				for j := 0; j < k; j++ {
					if j != ch.i && sim.status[j] != '-' && sim.batch[j] == 0 && (strings.HasPrefix(sim.item[j], "ev ") || strings.HasPrefix(sim.item[j], "wm ")) {
						cand = append(cand, j)
					}
				}
				if r.Chance(1, 3) {
					ops = append(ops, lib.Pick(r, []string{"state", "tick", "redeploy"})) // all refused
				}
				blockedSender := -1
				if r.Chance(1, 2) {
					// a new call during the hold: blocks on the read lock, is aligned after the handler returned
					for j := 0; j < k; j++ {
						if j != ch.i && sim.status[j] == '-' && sim.pos[j] < len(scripts[j]) {
							blockedSender = j
							ops = append(ops, fmt.Sprintf("send %d %s", j, scripts[j][sim.pos[j]]))
							break
						}
					}
				}
				x := -1
				if len(cand) > 0 && r.Chance(4, 5) {
					x = lib.Pick(r, cand)
					ops = append(ops, fmt.Sprintf("go %d", x))
					if r.Chance(1, 4) {
						ops = append(ops, fmt.Sprintf("go %d", lib.Pick(r, cand))) // a second one is not let through
					}
				}
				ops = append(ops, "resume")
				sim.run(ch.i)
				if x >= 0 {
					sim.run(x)
				}
				if blockedSender >= 0 {
					sim.batch[blockedSender] = 0
					sim.send(blockedSender)
				}
				break
			}
			ops = append(ops, fmt.Sprintf("go %d", ch.i))
			sim.run(ch.i)
		case "tick":
			if r.Chance(1, 4) {
				ops = append(ops, "stale")
			} else {
				ops = append(ops, "tick")
			}
		case "fault":
			if sim.stale || r.Chance(1, 2) {
				ops = append(ops, "redeploy")
				sim.redeploy()
			} else if r.Chance(1, 3) {
				ops = append(ops, "failckpt")
				sim.fail = true
			} else {
				ops = append(ops, "failnext")
				sim.fail = true
			}
		case "noise":
			switch r.Intn(4) {
			case 3:
				ops = append(ops, fmt.Sprintf("cancel %d", r.Intn(k))) // the client gives up on its call: nothing may change
			case 0:
				ops = append(ops, "state")
			case 1:
				ops = append(ops, fmt.Sprintf("go %d", r.Intn(k))) // possibly a parked or idle sender: must be a no-op
			default:
				j := r.Intn(k) // a second call while one is in flight / parked: the harness answers busy
				ops = append(ops, fmt.Sprintf("send %d ev 61 %d 0", j, 251))
				if sim.status[j] == '-' {
					sim.scripts[j] = append(append(append([]string{}, sim.scripts[j][:sim.pos[j]]...), "ev 61 251 0"), sim.scripts[j][sim.pos[j]:]...)
					scripts = sim.scripts
					sim.send(j)
				}
			}
		}
	}
	ops = append(ops, "tick", "state")
	return ops
}

func c02Case(k, b int, ops ...string) lib.Case {
	return lib.Case{Header: fmt.Sprintf("M C02 %d %d", k, b), Ops: ops}
}

// all interleavings of the senders' actions for fixed small scripts (every sender action is either its next send
// or the release of its gate; a parked or finished sender's action is a `go` that must be a no-op)
func c02Exhaustive(scripts [][]string, b int) []lib.Case {
	k := len(scripts)
	need := make([]int, k)
	for i := range scripts {
		need[i] = 2 * len(scripts[i])
	}
	var out []lib.Case
	var rec func(order []int, done []int)
	rec = func(order []int, done []int) {
		complete := true
		for i := range need {
			if done[i] < need[i] {
				complete = false
			}
		}
		if complete {
			sim := &c02Sim{k: k, scripts: scripts, pos: make([]int, k), status: make([]byte, k), item: make([]string, k)}
			for i := range sim.status {
				sim.status[i] = '-'
			}
			var ops []string
			for _, i := range order {
				switch {
				case sim.status[i] == '-' && sim.pos[i] < len(scripts[i]):
					ops = append(ops, fmt.Sprintf("send %d %s", i, scripts[i][sim.pos[i]]))
					sim.send(i)
				case sim.status[i] == 'p':
					ops = append(ops, fmt.Sprintf("go %d", i))
					sim.run(i)
				default:
					ops = append(ops, fmt.Sprintf("go %d", i))
				}
			}
			for i := 0; i < k; i++ {
				ops = append(ops, fmt.Sprintf("go %d", i))
			}
			ops = append(ops, "tick", "state")
			out = append(out, c02Case(k, b, ops...))
			return
		}
		for i := range need {
			if done[i] < need[i] {
				d := append([]int{}, done...)
				d[i]++
				rec(append(append([]int{}, order...), i), d)
			}
		}
	}
	rec(nil, make([]int, k))
	return out
}

func c02ExhaustiveAll() []lib.Case {
	two := [][]string{{"ev 61 1 0", "bar 1", "ev 61 2 0"}, {"ev 62 3 0", "bar 1", "ev 61 4 0"}}
	three := [][]string{{"bar 1", "ev 61 1 0"}, {"bar 1"}, {"ev 61 2 0", "bar 1"}}
	out := append(c02Exhaustive(two, 1), c02Exhaustive(two, 2)...)
	return append(out, c02Exhaustive(three, 2)...)
}

func propC02() *lib.Prop {
	var exh []lib.Case
	return &lib.Prop{
		ID:   "C02",
		Corr: "Model/Align.lean (step: align/go/tick/stale) ↔ operator.Operator.HandleEvent, checkpoint.alignSender/registerBarrier, handleCheckpointBarrier, processEventBatch, batching.EventBatcher (trace validation with park/pass hooks)",
		Rule: "cases = schedules of K sender goroutines against one real operator; non-trivial = at least one sender parked behind its own barrier and at least one checkpoint completed and was read back",
		NumCases: func(tier string) int {
			if tier == "thorough" {
				return 12000
			}
			return 420
		},
		Gen: func(r *lib.Rng, tier string, i int) lib.Case {
			if tier == "thorough" {
				if exh == nil {
					exh = c02ExhaustiveAll()
				}
				if i < len(exh) {
					return exh[i]
				}
			}
			k := r.Range(1, 4)
			b := r.Range(1, 5)
			z := 0
			if r.Chance(1, 4) {
				z = 1 // a caller that is not among the deployed runners (runner of a previous deployment still alive)
			}
			scripts := c02Scripts(r, k+z, k, tier)
			c := c02Case(k, b, c02Schedule(r, k+z, k, scripts)...)
			if z > 0 {
				c.Header = fmt.Sprintf("M C02 %d %d %d", k, b, z)
			}
			return c
		},
		Impl: c02Impl,
		Fixed: func(tier string) []lib.Case {
			return []lib.Case{
				// the repository's own alignment test as a schedule: s0 runs ahead and parks behind its barrier
				c02Case(2, 1, "send 0 ev 61 1 0", "go 0", "send 0 ev 61 2 0", "go 0", "send 0 bar 1", "go 0", "send 0 ev 61 3 0", "state",
					"send 1 bar 1", "go 1", "state", "go 0", "state"),
				// pending batch must be flushed into the snapshot; a sender that passed alignment before the checkpoint began
				c02Case(2, 4, "send 0 ev 61 1 0", "send 1 ev 62 2 0", "go 0", "send 0 bar 1", "go 0", "go 1", "send 1 bar 1", "send 0 ev 61 3 0", "go 1", "go 0", "tick", "state"),
				// consecutive barriers and an id mismatch
				c02Case(2, 2, "send 0 bar 1", "go 0", "send 0 bar 2", "send 1 bar 2", "go 1", "send 1 bar 1", "go 1", "go 0", "send 1 bar 2", "go 1", "state"),
				// D43: a sender parked behind its barrier is turned away by a redeploy; its event never reaches the new deployment
				c02Case(2, 1, "send 0 ev 61 1 0", "go 0", "send 0 bar 1", "go 0", "send 0 ev 61 9 0", "state", "redeploy", "go 0", "state",
					"send 0 ev 61 2 0", "go 0", "send 0 bar 2", "go 0", "send 1 bar 2", "go 1", "state"),
				// failed ack: the completed record stays, other ids are rejected, a repeated barrier must not panic (D43), redeploy recovers
				c02Case(1, 2, "send 0 ev 61 1 0", "go 0", "failnext", "send 0 bar 1", "go 0", "state", "send 0 ev 61 2 0", "go 0", "send 0 bar 2", "go 0",
					"send 0 bar 1", "go 0", "state", "failnext", "send 0 bar 3", "go 0", "state", "redeploy", "state", "send 0 bar 4", "go 0", "tick", "state"),
				// db.Checkpoint fails: no snapshot, no ack, the completed record stays; repeated barrier completes (id already in
				// the DKV's list: dup); redeploy recovers
				c02Case(2, 2, "send 0 ev 61 1 0", "go 0", "failckpt", "send 0 bar 1", "go 0", "send 0 ev 61 2 0", "send 1 bar 1", "go 1", "state", "go 0",
					"send 1 bar 2", "go 1", "send 1 bar 1", "go 1", "state", "failckpt", "failnext", "redeploy", "send 0 bar 3", "go 0", "send 1 bar 3", "go 1", "state",
					"send 0 bar 4", "go 0", "send 1 bar 4", "go 1", "state"),
				// D69 (fixed a8de76c) regression: a caller that is no deployed runner is refused — its event does not reach the
				// handler and is not in checkpoint 1 (before the repair: S(1|61=05|))
				lib.Case{Header: "M C02 2 1 1", Ops: []string{"send 2 ev 61 5 0", "go 2", "send 0 bar 1", "go 0", "send 2 wm 9", "send 1 bar 1", "go 1", "state"}},
				// a caller that is no deployed runner in every role (before the repair: handled, parked while a checkpoint is
				// aligned, its stale barrier started a record, its watermark became an upstream entry; now refused throughout)
				lib.Case{Header: "M C02 2 1 1", Ops: []string{"send 2 ev 61 5 0", "go 2", "send 0 bar 1", "go 0", "send 2 ev 61 6 0", "state", "send 1 bar 1", "go 1", "go 2",
					"send 2 bar 7", "go 2", "send 0 bar 2", "go 0", "send 2 wm 9", "go 2", "state", "redeploy", "state", "sendb 2 wm:2 ev:61:7:3 bar:1 done",
					"go 2", "go 2", "go 2", "go 2", "send 0 wm 9", "go 0", "send 1 wm 9", "go 1", "tick", "state"}},
				// events waiting in the batcher and a call past alignment survive a redeploy (as in the code)
				c02Case(2, 3, "send 0 ev 61 1 0", "go 0", "send 1 ev 62 2 0", "redeploy", "go 1", "send 0 bar 1", "go 0", "send 1 bar 1", "go 1", "state"),
				// SourceComplete flushes; the last one stops the operator
				c02Case(2, 3, "send 0 ev 61 1 0", "go 0", "send 0 done", "go 0", "send 1 bar 1", "go 1", "state", "send 1 done", "go 1", "send 0 ev 61 2 0", "go 0", "state"),
				// the window between waking the parked senders and the capture: the woken sender's post-barrier event
				// must wait for the consumer and stay out of checkpoint 1 (seeded change C02-4)
				c02Case(2, 3, "send 0 ev 61 1 0", "go 0", "send 0 bar 1", "go 0", "send 0 ev 61 9 0", "send 1 bar 1", "gohold 1", "state", "go 0", "go 0",
					"resume", "state", "tick", "send 0 bar 2", "go 0", "send 1 bar 2", "gohold 1", "resume", "state"),
				// a call started while the barrier handler holds o.mu blocks before its alignment decision
				c02Case(2, 3, "send 0 ev 61 1 0", "go 0", "send 0 bar 1", "go 0", "send 1 bar 1", "gohold 1", "sendb 0 ev:61:9:0 bar:2", "send 0 ev 61 8 0",
					"state", "resume", "state", "go 0", "go 0", "state"),
				// D45 witness of Props/C02 `epoch_cut_counterexample`: a batched event survives the redeploy into checkpoint 1
				c02Case(2, 3, "send 0 ev 61 7 0", "go 0", "redeploy", "send 0 bar 1", "go 0", "send 1 bar 1", "go 1", "state"),
				// same with a sender that was already at the gate and a watermark that would fire a timer
				c02Case(2, 2, "send 0 ev 61 1 5", "go 0", "send 0 wm 9", "go 0", "send 0 bar 1", "go 0", "send 1 wm 9", "send 1 bar 1", "go 1", "send 1 bar 1",
					"gohold 1", "go 1", "resume", "state"),
				// one HandleEventBatch call with the sender's barrier in the middle: alignment is decided per event, the
				// event behind the barrier parks (seeded change C02-5)
				c02Case(2, 1, "sendb 0 ev:61:1:0 bar:1 ev:61:9:0", "go 0", "go 0", "state", "go 0", "sendb 1 ev:62:2:0 bar:1", "go 1", "go 1", "go 0", "state"),
				c02Case(2, 3, "sendb 0 bar:1 wm:9 ev:61:9:7", "go 0", "sendb 1 ev:61:1:5 wm:9 bar:1", "go 1", "go 1", "go 1", "go 0", "go 0", "tick", "state"),
				// a parked call whose context is cancelled stays parked (seeded change C02-6)
				c02Case(2, 1, "send 0 bar 1", "go 0", "send 0 ev 61 9 0", "cancel 0", "state", "go 0", "send 1 bar 1", "go 1", "go 0", "state"),
				c02Case(2, 2, "sendb 0 bar:1 ev:61:9:0 bar:2", "go 0", "cancel 0", "cancel 1", "send 1 ev 62 1 0", "cancel 1", "go 1", "send 1 bar 1", "go 1", "go 0", "go 0", "state"),
				// timers: a post-barrier watermark must not fire timers into checkpoint 1
				c02Case(2, 3, "send 0 ev 61 1 5", "go 0", "tick", "send 0 wm 9", "go 0", "send 1 bar 1", "go 1", "send 1 wm 9", "state", "send 0 bar 1", "go 0", "go 1", "tick", "state"),
			}
		},
		Nontrivial: func(c lib.Case, impl []string) bool {
			parked, snap := false, false
			for _, o := range impl {
				if o == "parked" {
					parked = true
				}
				if strings.Contains(o, " S(") {
					snap = true
				}
			}
			return parked && snap
		},
		MObs: func(op string) bool { return op == "state" },
		Extra: func() map[string]any {
			m := map[string]any{}
			for k, v := range c02Stats {
				m[k] = v
			}
			return m
		},
	}
}
