package main

import (
	"bytes"
	"fmt"
	"os"
	"sort"
	"strconv"
	"strings"
	"sync/atomic"
	"time"

	"google.golang.org/protobuf/proto"
	"reduction.dev/reduction/proto/jobpb"
	"reduction.dev/reduction/proto/snapshotpb"
	"reduction.dev/reduction/storage/locations"
	"reduction.dev/reduction/storage/snapshots"
	"verif/harness/lib"
)

func init() { register("C13", propC13) }

// ---- implementation side: the real Store over a gated location; every storage step is released by an op ----

type c13Run struct {
	inner    locations.StorageLocation
	gate     *gateLoc
	store    *snapshots.Store
	events   chan string
	retained chan []uint64
	tmp      string
	expired  bool
}

const c13Wait = 5 * time.Second
const c13Settle = 3 * time.Millisecond

// Waiting for an event that the trace says must come (a parked Remove, a notification) is bounded by a
// generous timeout. On a correct tree these waits never expire, so no verdict depends on them; on a broken
// tree the first expirations are observed with the long timeout and later ones (same run, or later in a case
// that already diverged) with a short one, which only bounds the running time of a failing check.
var c13Expired atomic.Int64

func (r *c13Run) patience() time.Duration {
	switch {
	case r.expired: // this case has already diverged
		return 20 * time.Millisecond
	case c13Expired.Load() >= 6: // this run has already failed several times
		return 300 * time.Millisecond
	}
	return 2 * time.Second
}

func (r *c13Run) longPatience() time.Duration {
	if r.expired || c13Expired.Load() >= 6 {
		return r.patience()
	}
	return c13Wait
}

func (r *c13Run) noteExpired() {
	r.expired = true
	c13Expired.Add(1)
}

func (r *c13Run) boot() (res string) {
	defer func() {
		if p := recover(); p != nil { // LoadCheckpoint panics on some unreadable snapshot files
			r.store = nil
			res = "loaded error"
		}
	}()
	r.gate = newGateLoc(r.inner)
	r.events = make(chan string, 256)
	r.retained = make(chan []uint64) // unbuffered, as jobs.New creates it: received only by `drain`
	r.store = snapshots.NewStore(&snapshots.NewStoreParams{
		FileStore:                  r.gate,
		SavepointsPath:             "savepoints",
		CheckpointsPath:            "checkpoints",
		CheckpointEvents:           r.events,
		RetainedCheckpointsUpdated: r.retained,
	})
	r.store.RegisterSourceSplitter(&countingSplitter{})
	if err := r.store.LoadCheckpoint(); err != nil {
		r.store = nil // the job does not start
		return "loaded error"
	}
	if ck := r.store.CurrentCheckpoint(); ck != nil {
		return fmt.Sprintf("loaded %d", ck.Id)
	}
	return "loaded none"
}

func (r *c13Run) cur() string {
	if ck := r.store.CurrentCheckpoint(); ck != nil {
		return fmt.Sprintf("cur %d", ck.Id)
	}
	return "cur none"
}

func pathsIDs(paths []string) ([]uint64, bool) {
	var ids []uint64
	for _, p := range paths {
		id, ok := c13DecodePath(p)
		if !ok {
			return nil, false
		}
		ids = append(ids, id)
	}
	return ids, true
}

func sameIDs(a, b []uint64) bool { return showU64s(a) == showU64s(b) }

func c13Impl(c lib.Case) []string {
	r := &c13Run{}
	defer func() {
		if r.gate != nil {
			r.gate.kill()
		}
		if r.tmp != "" {
			os.RemoveAll(r.tmp)
		}
	}()
	out := make([]string, 0, len(c.Ops))
	for _, op := range c.Ops {
		f := strings.Fields(op)
		if f[0] != "init" && f[0] != "seg" && r.store == nil {
			out = append(out, "no-init")
			continue
		}
		switch f[0] {
		case "init":
			if r.gate != nil {
				r.gate.kill()
			}
			if strings.Contains(c.Header, "dir") {
				if r.tmp != "" {
					os.RemoveAll(r.tmp)
				}
				tmp, err := os.MkdirTemp("", "verif-c13-")
				if err != nil {
					out = append(out, "tmpdir error")
					continue
				}
				r.tmp = tmp
				r.inner = locations.NewLocalDirectory(tmp)
			} else {
				r.inner = newMemLoc()
			}
			for _, id := range u64List(f[1]) {
				data, _ := proto.Marshal(&snapshotpb.JobCheckpoint{Id: id, SourceCheckpoints: []*snapshotpb.SourceCheckpoint{{CheckpointId: id, SourceId: "tbd"}}})
				// named by the code's own encoder, as a previous run of the job would have
				r.inner.Write("checkpoints/job-"+snapshots.VerifPathSegment(id)+".snapshot", bytes.NewReader(data))
			}
			if len(f) > 2 { // other content of a job's storage
				r.inner.Write("checkpoints/notes.txt", strings.NewReader("x"))
				r.inner.Write("checkpoints/job-!!!.snapshot", strings.NewReader("x"))
				r.inner.Write("aaa/op1/000001.sst", strings.NewReader("x"))
				r.inner.Write("savepoints/"+snapshots.VerifPathSegment(1)+"/job.savepoint", strings.NewReader("x"))
			}
			out = append(out, r.boot())
		case "ckpt":
			id, err := r.store.CreateCheckpoint([]string{"op1"}, []string{"sr1"})
			if err != nil {
				out = append(out, "inprogress")
				continue
			}
			r.store.AddOperatorSnapshot(&snapshotpb.OperatorCheckpoint{CheckpointId: id, OperatorId: "op1", DkvFileUri: "op1/checkpoints"})
			r.store.AddSourceSnapshot(&jobpb.SourceRunnerCheckpointCompleteRequest{CheckpointId: id, SourceRunnerId: "sr1"})
			// the publisher goroutine is now on its way to Write: wait until it is parked there
			if r.gate.waitFor(func(g *gateCall) bool { return g.write && len(g.paths) == 1 && g.paths[0] == c13Path(id) }, r.longPatience()) == nil {
				r.noteExpired()
				out = append(out, fmt.Sprintf("id %d no-write", id))
				continue
			}
			out = append(out, fmt.Sprintf("id %d", id))
		case "write":
			id, _ := strconv.ParseUint(f[1], 10, 64)
			calls := r.gate.snapshot(func(g *gateCall) bool {
				select {
				case <-g.relA:
					return false
				default:
				}
				return g.write && g.paths[0] == c13Path(id)
			})
			if len(calls) == 0 {
				out = append(out, "disabled")
				continue
			}
			close(calls[0].relA)
			select {
			case <-calls[0].performed:
				out = append(out, c13Files(r.inner))
			case <-time.After(r.longPatience()):
				r.noteExpired()
				out = append(out, "timeout")
			}
		case "crashwrite":
			// the job process is lost in the middle of fileStore.Write for checkpoint n (half of the bytes reach
			// the real LocalDirectory.Write), then the job restarts
			id, _ := strconv.ParseUint(f[1], 10, 64)
			calls := r.gate.snapshot(func(g *gateCall) bool {
				select {
				case <-g.relA:
					return false
				default:
				}
				return g.write && g.paths[0] == c13Path(id)
			})
			if len(calls) == 0 {
				out = append(out, "disabled")
				continue
			}
			calls[0].partial.Store(true)
			close(calls[0].relA)
			select {
			case <-calls[0].performed:
			case <-time.After(r.longPatience()):
				r.noteExpired()
				out = append(out, "timeout")
				continue
			}
			// the restarted process has a new LocalDirectory object over the same directory (nothing held in memory by
			// the dead writer, a lock say, survives a process death)
			if r.tmp != "" {
				r.inner = locations.NewLocalDirectory(r.tmp)
			}
			// a real crash leaves the temporary file of the interrupted write behind (the error path of Write, which
			// this simulation takes, removes it): put one there, named as LocalDirectory.Write names it
			r.inner.Write("checkpoints/.tmp-"+strings.TrimPrefix(c13Path(id), "checkpoints/")+"-1234567", strings.NewReader("cut-o"))
			r.gate.kill()
			out = append(out, r.boot())
		case "lock":
			id, _ := strconv.ParseUint(f[1], 10, 64)
			calls := r.gate.snapshot(func(g *gateCall) bool {
				if !g.write || g.paths[0] != c13Path(id) {
					return false
				}
				select {
				case <-g.performed:
				default:
					return false
				}
				select {
				case <-g.relB:
					return false
				default:
					return true
				}
			})
			if len(calls) == 0 {
				out = append(out, "disabled")
				continue
			}
			close(calls[0].relB)
			res := "timeout"
			deadline := time.After(r.longPatience())
		waitEvent:
			for {
				select {
				case uri := <-r.events:
					if got, ok := c13DecodePath(uri); ok && got == id {
						res = r.cur()
						break waitEvent
					}
				case <-deadline:
					r.noteExpired()
					break waitEvent
				}
			}
			out = append(out, res)
		case "rems":
			k, _ := strconv.Atoi(f[1])
			pend := func(g *gateCall) bool {
				if g.write {
					return false
				}
				select {
				case <-g.relA:
					return false
				default:
					return true
				}
			}
			deadline := time.Now().Add(r.patience())
			for len(r.gate.snapshot(pend)) < k {
				if !time.Now().Before(deadline) {
					r.noteExpired()
					break
				}
				time.Sleep(200 * time.Microsecond)
			}
			time.Sleep(c13Settle)
			var ls []string
			for _, g := range r.gate.snapshot(pend) {
				if ids, ok := pathsIDs(g.paths); ok {
					ls = append(ls, showU64s(ids))
				} else {
					ls = append(ls, "?"+strings.Join(g.paths, "|"))
				}
			}
			sort.Strings(ls)
			if len(ls) == 0 {
				out = append(out, "rems -")
			} else {
				out = append(out, "rems "+strings.Join(ls, ";"))
			}
		case "remove":
			want := u64List(f[1])
			g := r.gate.waitFor(func(g *gateCall) bool {
				if g.write {
					return false
				}
				select {
				case <-g.relA:
					return false
				default:
				}
				ids, ok := pathsIDs(g.paths)
				return ok && sameIDs(ids, want)
			}, r.patience())
			if g == nil {
				r.noteExpired()
				out = append(out, "absent")
				continue
			}
			close(g.relA)
			select {
			case <-g.performed:
				out = append(out, c13Files(r.inner))
			case <-time.After(r.longPatience()):
				r.noteExpired()
				out = append(out, "timeout")
			}
		case "drain":
			k, _ := strconv.Atoi(f[1])
			var got []uint64
			bad := false
			for i := 0; i < k; i++ {
				select {
				case ids := <-r.retained:
					got = append(got, ids...)
					bad = bad || len(ids) != 1
				case <-time.After(r.patience()):
					r.noteExpired()
					i = k
				}
			}
			time.Sleep(c13Settle)
		extras:
			for {
				select {
				case ids := <-r.retained:
					got = append(got, ids...)
					bad = bad || len(ids) != 1
				default:
					break extras
				}
			}
			// in the order received (D54 repaired: the single announcer must deliver in decision order)
			if bad {
				out = append(out, "notify multi "+showU64sRaw(got))
			} else {
				out = append(out, "notify "+showU64sRaw(got))
			}
		case "crash":
			r.gate.kill()
			out = append(out, r.boot())
		case "current":
			out = append(out, r.cur())
		case "files":
			out = append(out, c13Files(r.inner))
		case "seg":
			id, _ := strconv.ParseUint(f[1], 10, 64)
			out = append(out, lib.Hex([]byte(snapshots.VerifPathSegment(id))))
		default:
			out = append(out, "bad-op")
		}
	}
	return out
}

// ---- generator: pure; its own reference bookkeeping chooses enabled actions and expected counts ----

type c13Ref struct {
	cid       uint64
	completed []uint64
	parked    []uint64 // finished, Write not performed
	writtenQ  []uint64 // written, lock section not run
	removes   [][]uint64
	notifs    int
	files     map[uint64]bool
}

func (ref *c13Ref) load() {
	var best uint64
	found := false
	for id := range ref.files {
		if !found || id > best {
			best, found = id, true
		}
	}
	ref.cid, ref.completed = 0, nil
	if found {
		ref.cid, ref.completed = best, []uint64{best}
	}
	ref.parked, ref.writtenQ, ref.removes, ref.notifs = nil, nil, nil, 0
}

func (ref *c13Ref) lock(n uint64) {
	var obsolete, newer []uint64
	for _, c := range ref.completed {
		if c < n {
			obsolete = append(obsolete, c)
		} else {
			newer = append(newer, c)
		}
	}
	if len(obsolete) > 0 {
		ref.removes = append(ref.removes, obsolete)
		if len(newer) == 0 {
			ref.notifs++
		}
	}
	ref.completed = append([]uint64{n}, newer...)
}

func del(xs []uint64, i int) []uint64 { return append(append([]uint64(nil), xs[:i]...), xs[i+1:]...) }

var c13Boundaries = []uint64{0, 1, 2, 3, 4, 15, 16, 17, 18, 19, 31, 32, 47, 48, 62, 63, 64, 65, 255, 256, 4095, 4096, 65535, 65536,
	1<<24 - 1, 1 << 24, 1<<32 - 1, 1 << 32, 1<<48 - 1, 1 << 48, 1 << 62, 1<<63 - 1, 1 << 63, 1<<64 - 1000}

func c13InitIDs(r *lib.Rng) []uint64 {
	var ids []uint64
	switch r.Intn(6) {
	case 0:
	case 1:
		b := lib.Pick(r, c13Boundaries)
		ids = []uint64{b, b + 1}
		if r.Bool() {
			ids = append(ids, b+2)
		}
	case 2:
		base := r.U64() >> uint(r.Intn(60))
		if base > 1<<64-2000 {
			base = 1<<64 - 2000
		}
		for j := r.Range(1, 4); j > 0; j-- {
			ids = append(ids, base+uint64(r.Intn(70)))
		}
	default:
		for j := r.Range(1, 4); j > 0; j-- {
			ids = append(ids, uint64(r.Intn(70)))
		}
	}
	// distinct
	seen := map[uint64]bool{}
	var out []uint64
	for _, id := range ids {
		if !seen[id] {
			seen[id] = true
			out = append(out, id)
		}
	}
	return out
}

func c13Gen(r *lib.Rng, tier string, i int) lib.Case {
	c := lib.Case{Header: "M C13 mem"}
	if i%10 == 9 {
		c.Header = "M C13 dir"
	}
	ref := &c13Ref{files: map[uint64]bool{}}
	ids := c13InitIDs(r)
	for _, id := range ids {
		ref.files[id] = true
	}
	line := "init " + showU64sRaw(ids)
	if r.Chance(1, 3) {
		line += " junk"
	}
	c.Ops = append(c.Ops, line)
	ref.load()
	n := r.Range(10, 45)
	overlapped, crashed := false, false
	for len(c.Ops) < n {
		switch k := r.Intn(24); {
		case k < 5:
			if len(ref.parked)+len(ref.writtenQ) < 3 {
				ref.cid++
				ref.parked = append(ref.parked, ref.cid)
				c.Ops = append(c.Ops, "ckpt")
			}
		case k < 10:
			if len(ref.parked) > 0 {
				j := r.Intn(len(ref.parked))
				id := ref.parked[j]
				if j > 0 || len(ref.writtenQ) > 0 {
					overlapped = true
				}
				ref.parked = del(ref.parked, j)
				ref.writtenQ = append(ref.writtenQ, id)
				ref.files[id] = true
				c.Ops = append(c.Ops, fmt.Sprintf("write %d", id))
			}
		case k < 15:
			if len(ref.writtenQ) > 0 {
				j := r.Intn(len(ref.writtenQ))
				id := ref.writtenQ[j]
				for _, o := range append(append([]uint64(nil), ref.parked...), ref.writtenQ...) {
					if o < id {
						overlapped = true
					}
				}
				ref.writtenQ = del(ref.writtenQ, j)
				ref.lock(id)
				c.Ops = append(c.Ops, fmt.Sprintf("lock %d", id))
			}
		case k < 18:
			if len(ref.removes) > 0 {
				j := r.Intn(len(ref.removes))
				for _, id := range ref.removes[j] {
					delete(ref.files, id)
				}
				c.Ops = append(c.Ops, "remove "+showU64s(ref.removes[j]))
				ref.removes = append(append([][]uint64(nil), ref.removes[:j]...), ref.removes[j+1:]...)
			}
		case k == 18:
			c.Ops = append(c.Ops, fmt.Sprintf("rems %d", len(ref.removes)))
		case k < 21:
			if ref.notifs > 0 || r.Chance(1, 6) {
				c.Ops = append(c.Ops, fmt.Sprintf("drain %d", ref.notifs))
				ref.notifs = 0
			}
		case k == 21:
			c.Ops = append(c.Ops, lib.Pick(r, []string{"current", "files"}))
		case k == 22:
			if len(ref.parked) > 0 && r.Chance(1, 2) {
				// crash in the middle of a snapshot write (D60 repaired: nothing but a temporary file is left)
				c.Ops = append(c.Ops, fmt.Sprintf("crashwrite %d", ref.parked[r.Intn(len(ref.parked))]))
				ref.load()
				crashed = true
				c.Tags = append(c.Tags, "crashwrite")
				break
			}
			if r.Chance(1, 2) {
				c.Ops = append(c.Ops, "crash")
				ref.load()
				crashed = true
			}
		default:
			c.Ops = append(c.Ops, fmt.Sprintf("seg %d", lib.Pick(r, []uint64{ref.cid, r.U64(), lib.Pick(r, c13Boundaries)})))
		}
	}
	c.Ops = append(c.Ops, fmt.Sprintf("rems %d", len(ref.removes)), fmt.Sprintf("drain %d", ref.notifs), "files", "crash", "current")
	if overlapped {
		c.Tags = append(c.Tags, "overlap")
	}
	if crashed {
		c.Tags = append(c.Tags, "crash")
	}
	if len(ids) > 1 {
		c.Tags = append(c.Tags, "stale-files")
	}
	return c
}

func showU64sRaw(ids []uint64) string {
	if len(ids) == 0 {
		return "-"
	}
	parts := make([]string, len(ids))
	for i, v := range ids {
		parts[i] = strconv.FormatUint(v, 10)
	}
	return strings.Join(parts, ",")
}

// all orders of the write/lock steps of k overlapping publications (write n before lock n)
func c13Interleavings(ids []uint64) [][]string {
	type st struct{ w, l map[uint64]bool }
	var res [][]string
	var rec func(done []string, written, locked map[uint64]bool)
	rec = func(done []string, written, locked map[uint64]bool) {
		if len(locked) == len(ids) {
			res = append(res, append([]string(nil), done...))
			return
		}
		for _, id := range ids {
			if !written[id] {
				written[id] = true
				rec(append(done, fmt.Sprintf("write %d", id)), written, locked)
				delete(written, id)
			} else if !locked[id] {
				locked[id] = true
				rec(append(done, fmt.Sprintf("lock %d", id)), written, locked)
				delete(locked, id)
			}
		}
	}
	rec(nil, map[uint64]bool{}, map[uint64]bool{})
	return res
}

// c13Annotate replaces the counts of `rems ?` / `drain ?` by what the generator's reference expects, so the
// implementation side waits exactly for the events that must come (and only briefly for spurious ones).
func c13Annotate(ops []string) []string {
	ref := &c13Ref{files: map[uint64]bool{}}
	out := make([]string, 0, len(ops))
	for _, op := range ops {
		f := strings.Fields(op)
		switch f[0] {
		case "init":
			ref.files = map[uint64]bool{}
			for _, id := range u64List(f[1]) {
				ref.files[id] = true
			}
			ref.load()
		case "ckpt":
			ref.cid++
			ref.parked = append(ref.parked, ref.cid)
		case "write":
			id, _ := strconv.ParseUint(f[1], 10, 64)
			ref.files[id] = true
		case "lock":
			id, _ := strconv.ParseUint(f[1], 10, 64)
			ref.lock(id)
		case "remove":
			want := showU64s(u64List(f[1]))
			for j, rm := range ref.removes {
				if showU64s(rm) == want {
					for _, id := range rm {
						delete(ref.files, id)
					}
					ref.removes = append(append([][]uint64(nil), ref.removes[:j]...), ref.removes[j+1:]...)
					break
				}
			}
		case "crash", "crashwrite":
			ref.load()
		case "rems":
			op = fmt.Sprintf("rems %d", len(ref.removes))
		case "drain":
			op = fmt.Sprintf("drain %d", ref.notifs)
			ref.notifs = 0
		}
		out = append(out, op)
	}
	return out
}

func c13Fixed(tier string) []lib.Case {
	cs := c13FixedRaw(tier)
	for i := range cs {
		cs[i].Ops = c13Annotate(cs[i].Ops)
	}
	return cs
}

func c13FixedRaw(tier string) []lib.Case {
	var cs []lib.Case
	for _, hdr := range []string{"M C13 mem", "M C13 dir"} {
		// D14 (repaired): files of checkpoints 2 and 3 coexist; the name of 2 lists first
		cs = append(cs, lib.Case{Header: hdr, Tags: []string{"D14", "stale-files"}, Ops: []string{"init 2,3", "current", "ckpt", "seg 2", "seg 3"}})
		cs = append(cs, lib.Case{Header: hdr, Tags: []string{"D14", "stale-files"}, Ops: []string{"init 3,2,1 junk", "ckpt", "write 4", "lock 4", "rems ?", "remove 3", "files", "crash"}})
		// D13 (repaired): publication of 2 finishes after 3
		cs = append(cs, lib.Case{Header: hdr, Tags: []string{"D13", "overlap"}, Ops: []string{"init -", "ckpt", "write 1", "lock 1", "ckpt", "ckpt", "write 3", "lock 3",
			"rems ?", "drain ?", "write 2", "lock 2", "rems ?", "drain ?", "current", "files", "remove 1", "crash", "ckpt"}})
	}
	// D60 (repaired): the job process is lost in the middle of the Write for checkpoint 2 (the real LocalDirectory in
	// the dir cases). Only a temporary file is left; the restart resumes from checkpoint 1, and the leftover disturbs
	// neither later publications nor the cleanup nor later restarts.
	for _, hdr := range []string{"M C13 dir", "M C13 mem"} {
		cs = append(cs, lib.Case{Header: hdr, Tags: []string{"D60", "crash", "crashwrite"}, Ops: []string{"init -", "ckpt", "write 1", "lock 1", "ckpt", "crashwrite 2",
			"current", "files", "ckpt", "write 2", "lock 2", "rems ?", "remove 1", "drain ?", "files", "crash", "current"}})
		cs = append(cs, lib.Case{Header: hdr, Tags: []string{"D60", "crash", "crashwrite"}, Ops: []string{"init 5,6", "ckpt", "ckpt", "write 8", "crashwrite 7", "current", "files"}})
		cs = append(cs, lib.Case{Header: hdr, Tags: []string{"D60", "crash", "crashwrite"}, Ops: []string{"init -", "ckpt", "crashwrite 1", "current", "ckpt", "write 1", "lock 1", "current"}})
	}
	// D54 (repaired): notifications for 2 and 3 are both outstanding when the job receives them: [2] then [3]
	for _, hdr := range []string{"M C13 mem", "M C13 dir"} {
		cs = append(cs, lib.Case{Header: hdr, Tags: []string{"D54"}, Ops: []string{"init -", "ckpt", "write 1", "lock 1", "ckpt", "write 2", "lock 2",
			"ckpt", "write 3", "lock 3", "ckpt", "write 4", "lock 4", "drain ?", "current"}})
	}
	// base64 boundary pairs: the older of two coexisting files may list first
	b := lib.Case{Header: "M C13 mem", Tags: []string{"stale-files", "boundaries"}}
	for _, x := range c13Boundaries {
		b.Ops = append(b.Ops, fmt.Sprintf("init %d,%d", x, x+1), fmt.Sprintf("seg %d", x), fmt.Sprintf("init %d,%d,%d junk", x+2, x, x+1))
	}
	b.Ops = append(b.Ops, "init 18446744073709551615,5", "init 18446744073709551614,18446744073709551615", "seg 18446744073709551615")
	cs = append(cs, b)
	// exhaustive interleavings of two and three overlapping publications after a first published checkpoint,
	// with a crash after each storage operation prefix (thorough: every prefix; quick: the full orders)
	for _, k := range []int{2, 3} {
		var ids []uint64
		pre := []string{"init -", "ckpt", "write 1", "lock 1"}
		for j := 0; j < k; j++ {
			ids = append(ids, uint64(2+j))
			pre = append(pre, "ckpt")
		}
		for _, order := range c13Interleavings(ids) {
			cuts := []int{len(order)}
			if tier == "thorough" || k == 2 {
				cuts = nil
				for p := 0; p <= len(order); p++ {
					cuts = append(cuts, p)
				}
			}
			for _, p := range cuts {
				ops := append(append([]string(nil), pre...), order[:p]...)
				ops = append(ops, "rems ?", "drain ?", "current", "files", "crash", "ckpt")
				cs = append(cs, lib.Case{Header: "M C13 mem", Tags: []string{"overlap", "exhaustive", "crash"}, Ops: ops})
			}
		}
	}
	return cs
}

func propC13() *lib.Prop {
	return &lib.Prop{
		ID:   "C13",
		Corr: "Model/Publish.lean ↔ storage/snapshots Store.finishSnapshotAsync / LoadCheckpoint / pathSegment over a gated StorageLocation (in-memory byte-ordered listing and real LocalDirectory)",
		Rule: "cases = traces of the transition system: checkpoints finished on the real Store, each Write / lock section / Remove released individually in generated orders (all orders of 2 and 3 overlapping publications enumerated), notifications drained, crash = abandon store + LoadCheckpoint on the storage content; starting storages with coexisting snapshot files at base64 boundaries and ids up to 2^64-1; non-trivial = overlapping publications, a crash/restart, or several coexisting snapshot files",
		NumCases: func(tier string) int {
			if tier == "thorough" {
				return 6000
			}
			return 700
		},
		Fixed: c13Fixed,
		Gen:   c13Gen,
		Impl:  c13Impl,
		MObs:  func(op string) bool { return strings.HasPrefix(op, "seg ") || strings.HasPrefix(op, "rems ") },
		Nontrivial: func(c lib.Case, _ []string) bool {
			return len(c.Tags) > 0
		},
	}
}
