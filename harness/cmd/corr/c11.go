package main

import (
	"context"
	"fmt"
	"io"
	"log/slog"
	"os"
	"path/filepath"
	"strconv"
	"strings"
	"sync"
	"sync/atomic"
	"time"

	"google.golang.org/protobuf/types/known/timestamppb"
	"reduction.dev/reduction-protocol/handlerpb"
	"reduction.dev/reduction-protocol/jobconfigpb"
	"reduction.dev/reduction/batching"
	"reduction.dev/reduction/connectors"
	"reduction.dev/reduction/connectors/embedded"
	"reduction.dev/reduction/partitioning"
	"reduction.dev/reduction/proto"
	"reduction.dev/reduction/proto/jobpb"
	"reduction.dev/reduction/proto/snapshotpb"
	"reduction.dev/reduction/proto/workerpb"
	"reduction.dev/reduction/workers/operator"
	"reduction.dev/reduction/workers/sourcerunner"
	"reduction.dev/reduction/workers/wmark"
	"reduction.dev/reduction/workers/workerstest"
	"verif/harness/lib"
)

func init() { register("C11", propC11) }

// c11Handler is the reference handler: it logs what it is given (events and the Watermark field of every
// request) and answers every keyed event with the timers encoded in the event's value.
type c11Handler struct {
	mu   sync.Mutex
	reqs []string
}

func (h *c11Handler) ProcessEventBatch(ctx context.Context, req *handlerpb.ProcessEventBatchRequest) (*handlerpb.ProcessEventBatchResponse, error) {
	resp := &handlerpb.ProcessEventBatchResponse{}
	evs := make([]string, 0, len(req.Events))
	for _, e := range req.Events {
		switch te := e.Event.(type) {
		case *handlerpb.Event_KeyedEvent:
			evs = append(evs, "k"+lib.Hex(te.KeyedEvent.Key))
			kr := &handlerpb.KeyResult{Key: te.KeyedEvent.Key}
			if v := string(te.KeyedEvent.Value); v != "-" && v != "" {
				for _, s := range strings.Split(v, ",") {
					kr.NewTimers = append(kr.NewTimers, timestamppb.New(timeOfNs(s)))
				}
			}
			resp.KeyResults = append(resp.KeyResults, kr)
		case *handlerpb.Event_TimerExpired:
			evs = append(evs, "x"+lib.Hex(te.TimerExpired.Key)+"@"+nsOfTime(te.TimerExpired.Timestamp.AsTime()))
		}
	}
	h.mu.Lock()
	h.reqs = append(h.reqs, "["+nsOfTime(req.Watermark.AsTime())+";"+strings.Join(evs, ",")+"]")
	h.mu.Unlock()
	return resp, nil
}

func (h *c11Handler) KeyEventBatch(ctx context.Context, events [][]byte) ([][]*handlerpb.KeyedEvent, error) {
	return nil, nil
}

func (h *c11Handler) take() string {
	h.mu.Lock()
	defer h.mu.Unlock()
	if len(h.reqs) == 0 {
		return "-"
	}
	s := strings.Join(h.reqs, "")
	h.reqs = nil
	return s
}

// ---- the runner's real event loop (Start + HandleDeploy + processEvents + the send goroutine) ----

type c11Cmd struct {
	events [][]byte // nil = yield (an empty read)
}

// c11Reader is the scripted source: ReadEvents blocks until the harness hands it the next read.
type c11Reader struct {
	connectors.UnimplementedSourceReader
	cmd    chan c11Cmd
	parked atomic.Bool // the event loop is inside ReadEvents, waiting for the harness
}

func (r *c11Reader) AssignSplits([]*workerpb.SourceSplit) error { return nil }
func (r *c11Reader) ReadEvents() ([][]byte, error) {
	r.parked.Store(true)
	c, ok := <-r.cmd
	r.parked.Store(false)
	if !ok {
		return nil, connectors.ErrEndOfInput
	}
	return c.events, nil
}

// c11Keyer keys a raw event "a+b" to keyed events with these timestamps ("-" = none).
type c11Keyer struct{}

func (c11Keyer) ProcessEventBatch(context.Context, *handlerpb.ProcessEventBatchRequest) (*handlerpb.ProcessEventBatchResponse, error) {
	return &handlerpb.ProcessEventBatchResponse{}, nil
}
func (c11Keyer) KeyEventBatch(ctx context.Context, events [][]byte) ([][]*handlerpb.KeyedEvent, error) {
	out := make([][]*handlerpb.KeyedEvent, len(events))
	for i, e := range events {
		if string(e) == "-" {
			continue
		}
		for _, t := range strings.Split(string(e), "+") {
			key := []byte("k")
			if j := strings.IndexByte(t, ':'); j >= 0 {
				key, t = lib.UnHex(t[j+1:]), t[:j]
			}
			out[i] = append(out[i], &handlerpb.KeyedEvent{Key: key, Timestamp: timestamppb.New(timeOfNs(t))})
		}
	}
	return out, nil
}

type c11LoopJob struct{ proto.UnimplementedJob }

func (c11LoopJob) RegisterSourceRunner(context.Context, *jobpb.NodeIdentity) error   { return nil }
func (c11LoopJob) DeregisterSourceRunner(context.Context, *jobpb.NodeIdentity) error { return nil }

// c11LoopSink records what the operator is given, reading every value at the moment of delivery.
type c11LoopSink struct {
	proto.UnimplementedOperator
	mu   sync.Mutex
	seen []string
}

func (o *c11LoopSink) HandleEventBatch(ctx context.Context, batch []*workerpb.Event) error {
	o.mu.Lock()
	defer o.mu.Unlock()
	for _, e := range batch {
		switch te := e.Event.(type) {
		case *workerpb.Event_KeyedEvent:
			o.seen = append(o.seen, "k"+nsOfTime(te.KeyedEvent.Timestamp.AsTime()))
		case *workerpb.Event_Watermark:
			o.seen = append(o.seen, "w"+nsOfTime(te.Watermark.Timestamp.AsTime()))
		}
	}
	return nil
}
func (o *c11LoopSink) ID() string { return "loopsink" }
func (o *c11LoopSink) count() int {
	o.mu.Lock()
	defer o.mu.Unlock()
	return len(o.seen)
}

type c11Item struct {
	raw   bool
	keyed []int // operator index of each keyed event of a raw event
}

type c11Loop struct {
	sr      *sourcerunner.SourceRunner
	reader  *c11Reader
	ticks   chan time.Time
	sinks   []*c11LoopSink
	done    chan error
	n, k    int
	ks      *partitioning.KeySpace
	items   []c11Item
	shown   []int
	depBase []int // per operator: items received before the current deployment
	failure string
	// split assignment: whether the first round of a deployment is empty, and whether the source is being read
	firstEmpty bool
	reading    bool
}

// deployRunner calls the real HandleDeploy (the first or a further time on the same runner), replaces the 200ms
// ticker it creates by the harness's tick channel before it can have fired, and wakes the new event loop.
func (l *c11Loop) deployRunner() (fresh bool) {
	l.reader = &c11Reader{cmd: make(chan c11Cmd)}
	ops := make([]*jobpb.NodeIdentity, l.k)
	for i := range ops {
		ops[i] = &jobpb.NodeIdentity{Id: fmt.Sprintf("op%d", i), Host: "h"}
	}
	t0 := time.Now()
	if err := l.sr.HandleDeploy(context.Background(), &workerpb.DeploySourceRunnerRequest{
		Sources: []*jobconfigpb.Source{{}}, Operators: ops, KeyGroupCount: 8,
	}); err != nil {
		l.failure = "deploy-error"
		return true
	}
	l.sr.VerifSetWatermarkTicks(l.ticks)
	fresh = time.Since(t0) < 120*time.Millisecond
	// the first assignment round of the deployment (possibly empty: more runners than splits); it also wakes the new event loop
	l.reading = false
	if s := l.assign(!l.firstEmpty); s != "ok" && l.failure == "" {
		l.failure = s
	}
	return fresh
}

// assign is one split-assignment round (HandleAssignSplits): with a split (the source starts being read) or empty.
// It returns once the event loop has taken the assignment: a second, identical assignment is queued behind it (the
// channel holds one), which can only be accepted after the first was consumed; assigning the same splits again changes nothing.
func (l *c11Loop) assign(nonEmpty bool) string {
	var splits []*workerpb.SourceSplit
	if nonEmpty {
		splits = []*workerpb.SourceSplit{{}}
	}
	for round := 0; round < 2; round++ {
		errc := make(chan error, 1)
		go func() { errc <- l.sr.HandleAssignSplits(splits) }()
		deadline := time.After(10 * time.Second)
	wait:
		for {
			var yield chan c11Cmd
			if l.reading {
				yield = l.reader.cmd // the loop may be inside ReadEvents: an empty read brings it back to its select
			}
			select {
			case err := <-errc:
				if err != nil {
					return "assign-error"
				}
				break wait
			case yield <- c11Cmd{}:
			case <-deadline:
				return "timeout"
			}
		}
	}
	l.reading = l.reading || nonEmpty
	return "ok"
}

func newC11Loop(n, k int, firstEmpty bool) *c11Loop {
	k = max(k, 1)
	for attempt := 0; ; attempt++ {
		l := &c11Loop{ticks: make(chan time.Time), done: make(chan error, 1), n: max(n, 1), k: k, firstEmpty: firstEmpty,
			ks: partitioning.NewKeySpace(8, k), shown: make([]int, k), depBase: make([]int, k)}
		for i := 0; i < k; i++ {
			l.sinks = append(l.sinks, &c11LoopSink{})
		}
		l.sr = sourcerunner.New(sourcerunner.NewParams{
			Host: "sr", UserHandler: c11Keyer{}, Job: c11LoopJob{},
			OperatorFactory: func(_ string, node *jobpb.NodeIdentity) proto.Operator {
				i, _ := strconv.Atoi(strings.TrimPrefix(node.Id, "op"))
				return l.sinks[i]
			},
			SourceReaderFactory: func(*jobconfigpb.Source) connectors.SourceReader { return l.reader },
			EventBatching:       batching.EventBatcherParams{MaxSize: n}, // no MaxDelay: whole batches only
		})
		go func() { l.done <- l.sr.Start(context.Background()) }()
		fresh := l.deployRunner()
		if fresh || l.failure != "" || attempt >= 3 {
			return l
		}
		l.close()
	}
}

// redeploy: HandleDeploy a second time on the same SourceRunner. The runner keeps its watermarker; the new operator
// cluster starts with empty batchers. The previous deployment's event loop is left parked inside its reader (the
// code does not stop it: finding D39 of C01), which is why such cases use batches of 1 and drain after every step:
// with one placeholder in flight it does not matter which of the two send goroutines forwards it.
func (l *c11Loop) redeploy() string {
	if l.failure != "" {
		return l.failure
	}
	deadline := time.Now().Add(10 * time.Second)
	for l.reading && !l.reader.parked.Load() {
		if time.Now().After(deadline) {
			l.failure = "timeout"
			return "timeout"
		}
		time.Sleep(100 * time.Microsecond)
	}
	for attempt := 0; ; attempt++ {
		if l.deployRunner() || l.failure != "" || attempt >= 3 {
			break
		}
	}
	if l.failure != "" {
		return l.failure
	}
	l.items = nil
	for j, s := range l.sinks {
		l.shown[j] = s.count()
		l.depBase[j] = l.shown[j]
	}
	return "ok"
}

func (l *c11Loop) close() {
	l.sr.Stop()
	close(l.reader.cmd)
	select {
	case <-l.done:
	case <-time.After(5 * time.Second):
	}
}

func (l *c11Loop) read(raws []string) string {
	if l.failure != "" {
		return l.failure
	}
	if !l.reading {
		return "no-split"
	}
	evs := make([][]byte, len(raws))
	for i, r := range raws {
		evs[i] = []byte(r)
		it := c11Item{raw: true}
		if r != "-" {
			for _, t := range strings.Split(r, "+") {
				key := []byte("k")
				if j := strings.IndexByte(t, ':'); j >= 0 {
					key = lib.UnHex(t[j+1:])
				}
				it.keyed = append(it.keyed, l.ks.RangeIndex(key))
			}
		}
		l.items = append(l.items, it)
	}
	select {
	case l.reader.cmd <- c11Cmd{events: evs}:
		return "ok"
	case <-time.After(10 * time.Second):
		l.failure = "timeout"
		return "timeout"
	}
}

// yieldChan: an empty read for a loop that may be inside ReadEvents (nil, i.e. never ready, while nothing is read)
func (l *c11Loop) yieldChan() chan c11Cmd {
	if l.reading {
		return l.reader.cmd
	}
	return nil
}

func (l *c11Loop) tick() string {
	if l.failure != "" {
		return l.failure
	}
	deadline := time.After(10 * time.Second)
	for {
		// the loop is either selecting (takes the tick) or inside ReadEvents (takes an empty read and selects again)
		select {
		case l.ticks <- time.Now():
			l.items = append(l.items, c11Item{})
			return "ok"
		case l.yieldChan() <- c11Cmd{}:
		case <-deadline:
			l.failure = "timeout"
			return "timeout"
		}
	}
}

// expected number of items at operator j in this deployment: placeholders are sent in order, a keyed placeholder once
// its key-event batch of n raw events is complete, and each operator's batcher delivers whole batches of n
// (only tells how long to wait)
func (l *c11Loop) expected(j int) int {
	raws := 0
	for _, it := range l.items {
		if it.raw {
			raws++
		}
	}
	resolved := raws / l.n * l.n
	seen, items := 0, 0
	for _, it := range l.items {
		if it.raw {
			if seen >= resolved {
				break
			}
			seen++
			for _, d := range it.keyed {
				if d == j {
					items++
				}
			}
		} else {
			items++
		}
	}
	return items / l.n * l.n
}

func (l *c11Loop) drain() string {
	if l.failure != "" {
		return l.failure
	}
	deadline := time.Now().Add(10 * time.Second)
	for j, s := range l.sinks {
		for s.count()-l.depBase[j] < l.expected(j) {
			if time.Now().After(deadline) {
				break
			}
			time.Sleep(200 * time.Microsecond)
		}
	}
	time.Sleep(2 * time.Millisecond) // anything delivered beyond the expectation shows up too
	parts := make([]string, l.k)
	for j, s := range l.sinks {
		s.mu.Lock()
		out := append([]string(nil), s.seen[min(l.shown[j], len(s.seen)):]...)
		l.shown[j] = len(s.seen)
		s.mu.Unlock()
		if len(out) == 0 {
			parts[j] = "-"
		} else {
			parts[j] = strings.Join(out, ",")
		}
	}
	return strings.Join(parts, " | ")
}

var c11Seq atomic.Int64
var c11Quiet sync.Once

// c11Sink is the operator a VerifSender broadcasts to: it reports what arrives, in order.
type c11Sink struct {
	proto.UnimplementedOperator
	got chan string
}

func (o *c11Sink) HandleEventBatch(ctx context.Context, batch []*workerpb.Event) error {
	for _, e := range batch {
		switch te := e.Event.(type) {
		case *workerpb.Event_KeyedEvent:
			o.got <- "k"
		case *workerpb.Event_Watermark:
			o.got <- nsOfTime(te.Watermark.Timestamp.AsTime())
		}
	}
	return nil
}
func (o *c11Sink) ID() string { return "sink" }

type c11Env struct {
	loop         *c11Loop
	sender       *sourcerunner.VerifSender
	sink         *c11Sink
	w            *wmark.Watermarker
	op           *operator.Operator
	h            *c11Handler
	done         chan error
	started      bool
	hdr          []string
	opID         string
	deploys      int
	job          *workerstest.DummyJob
	location     string
	onDisk       bool
	tmp          string
	ckptID       uint64
	ckpt         *snapshotpb.OperatorCheckpoint
	ckptLocation string
	alignedSet   map[int]bool
}

// deploy calls the real HandleDeploy (first deployment, redeployment on fresh storage, or recovery from the last
// checkpoint in the storage it was taken in), then gives the operator the timer cache size of the case header.
func (e *c11Env) deploy(location string, ckpts []*snapshotpb.OperatorCheckpoint) string {
	runners, _ := strconv.Atoi(e.hdr[4])
	kgc, _ := strconv.Atoi(e.hdr[5])
	ids := make([]string, runners)
	for i := range ids {
		ids[i] = fmt.Sprintf("sr%d", i)
	}
	errc := make(chan error, 1)
	go func() {
		errc <- e.op.HandleDeploy(context.Background(), &workerpb.DeployOperatorRequest{
			Operators:       []*jobpb.NodeIdentity{{Id: e.opID, Host: "h"}},
			SourceRunnerIds: ids,
			KeyGroupCount:   int32(kgc),
			StorageLocation: location,
			Checkpoints:     ckpts,
		}, &embedded.RecordingSink{})
	}()
	select {
	case err := <-errc:
		if err != nil {
			return "deploy-error"
		}
	case <-time.After(10 * time.Second):
		return "timeout"
	}
	if len(e.hdr) > 6 {
		cache, _ := strconv.ParseUint(e.hdr[6], 10, 64)
		e.op.VerifUseTimerCache(cache)
	}
	e.location = location
	e.alignedSet = nil
	deadline := time.Now().Add(10 * time.Second)
	for !e.op.VerifReady() {
		if time.Now().After(deadline) {
			return "not-ready"
		}
		time.Sleep(time.Millisecond)
	}
	return "ok"
}

// newLocation: recovery needs storage that outlives the DB object (every "memory://" location is a new empty file
// system), so cases that recover use a temporary directory.
func (e *c11Env) newLocation() string {
	e.deploys++
	if !e.onDisk {
		return fmt.Sprintf("memory:///c11-%d", e.deploys)
	}
	if e.tmp == "" {
		dir, err := os.MkdirTemp("", "verif-c11-")
		if err != nil {
			panic(err)
		}
		e.tmp = dir
	}
	return filepath.Join(e.tmp, fmt.Sprintf("d%d", e.deploys))
}

func (e *c11Env) startOperator() string {
	if e.started {
		return ""
	}
	e.started = true
	maxBatch, _ := strconv.Atoi(e.hdr[3])
	id := fmt.Sprintf("c11op%d", c11Seq.Add(1))
	e.opID = id
	e.h = &c11Handler{}
	e.job = &workerstest.DummyJob{}
	e.op = operator.NewOperator(operator.NewOperatorParams{
		ID: id, UserHandler: e.h, Job: e.job,
		EventBatching: batching.EventBatcherParams{MaxSize: maxBatch}, // MaxDelay 0: batches are flushed only when full
	})
	e.done = make(chan error, 1)
	go func() { e.done <- e.op.Start(context.Background()) }()
	if s := e.deploy(e.newLocation(), nil); s != "ok" {
		return s
	}
	return ""
}

// redeploy calls HandleDeploy again on the same Operator (as the job does after a failure or a rescale), with a
// fresh storage location.
func (e *c11Env) redeploy() string {
	if s := e.startOperator(); s != "" {
		return s
	}
	return e.deploy(e.newLocation(), nil)
}

// barrier sends the checkpoint barrier of every runner; with the last one the operator flushes its batch and
// checkpoints its DB (the handle goes to the job).
func (e *c11Env) barrier() string {
	if s := e.startOperator(); s != "" {
		return s
	}
	runners, _ := strconv.Atoi(e.hdr[4])
	e.ckptID++
	var last, early string
	for i := 0; i < runners; i++ {
		last = e.send(fmt.Sprintf("sr%d", i), &workerpb.Event{Event: &workerpb.Event_CheckpointBarrier{
			CheckpointBarrier: &workerpb.CheckpointBarrier{CheckpointId: e.ckptID}}})
		if i < runners-1 && !strings.HasSuffix(last, " -") && early == "" {
			early = "early-flush " + last + " " // nothing may reach the handler before the last barrier (the alignment is completed all the same)
		}
	}
	last = early + last
	if e.job.OperatorCheckpoint == nil || e.job.OperatorCheckpoint.CheckpointId != e.ckptID {
		return "no-checkpoint " + last
	}
	e.ckpt, e.ckptLocation = e.job.OperatorCheckpoint, e.location
	return last
}

// bar sends the checkpoint barrier of one runner. The first barrier of an alignment opens a new checkpoint id; with the
// last one the operator flushes its batch and checkpoints its DB. (Runners that already sent theirs must stay silent
// until then: the operator parks their calls.)
func (e *c11Env) bar(i int) string {
	if s := e.startOperator(); s != "" {
		return s
	}
	runners, _ := strconv.Atoi(e.hdr[4])
	if len(e.alignedSet) == 0 {
		e.ckptID++
		e.alignedSet = map[int]bool{}
	}
	e.alignedSet[i] = true
	out := e.send(fmt.Sprintf("sr%d", i), &workerpb.Event{Event: &workerpb.Event_CheckpointBarrier{
		CheckpointBarrier: &workerpb.CheckpointBarrier{CheckpointId: e.ckptID}}})
	if len(e.alignedSet) >= runners {
		e.alignedSet = nil
		if e.job.OperatorCheckpoint == nil || e.job.OperatorCheckpoint.CheckpointId != e.ckptID {
			return "no-checkpoint " + out
		}
		e.ckpt, e.ckptLocation = e.job.OperatorCheckpoint, e.location
	}
	return out
}

// recover redeploys the operator from its last checkpoint, in the storage location the checkpoint was taken in.
func (e *c11Env) recover() string {
	if e.ckpt == nil {
		return "nockpt"
	}
	e.deploys++
	return e.deploy(e.ckptLocation, []*snapshotpb.OperatorCheckpoint{e.ckpt})
}

func (e *c11Env) send(sender string, ev *workerpb.Event) string {
	if s := e.startOperator(); s != "" {
		return s
	}
	errc := make(chan error, 1)
	go func() { errc <- e.op.HandleEvent(context.Background(), sender, ev) }()
	select {
	case err := <-errc:
		if err != nil {
			return "error"
		}
	case <-time.After(10 * time.Second):
		return "timeout"
	}
	return "c=" + nsOfTime(e.op.VerifWatermark()) + " " + e.h.take()
}

func (e *c11Env) runner() {
	if e.sender == nil {
		e.sink = &c11Sink{got: make(chan string, 64)}
		e.sender = sourcerunner.VerifNewSender(4, []proto.Operator{e.sink})
	}
}

func (e *c11Env) await(want int) ([]string, bool) {
	var got []string
	for len(got) < want {
		select {
		case s := <-e.sink.got:
			got = append(got, s)
		case <-time.After(10 * time.Second):
			return got, false
		}
	}
	return got, true
}

func (e *c11Env) theLoop() *c11Loop { return e.theLoopWith(false) }

func (e *c11Env) theLoopWith(firstEmpty bool) *c11Loop {
	if e.loop == nil {
		n, _ := strconv.Atoi(e.hdr[3])
		k, _ := strconv.Atoi(e.hdr[4])
		e.loop = newC11Loop(n, k, firstEmpty)
	}
	return e.loop
}

func (e *c11Env) close() {
	if e.tmp != "" {
		defer os.RemoveAll(e.tmp)
	}
	if e.loop != nil {
		e.loop.close()
	}
	if e.sender != nil {
		e.sender.Close()
	}
	if e.op == nil {
		return
	}
	e.op.Stop()
	select {
	case <-e.done:
	case <-time.After(5 * time.Second):
	}
}

func (e *c11Env) step(op string) string {
	f := strings.Fields(op)
	switch f[0] {
	case "evs":
		for _, s := range f[1:] {
			e.w.AdvanceTime(timeOfNs(s))
		}
		return "ok"
	case "tick":
		return nsOfTime(e.w.CurrentWatermark())
	case "lread":
		return e.theLoop().read(f[1:])
	case "ltick":
		return e.theLoop().tick()
	case "ldrain":
		return e.theLoop().drain()
	case "ldeploy":
		return e.theLoop().redeploy()
	case "lassign":
		// a split-assignment round: "lassign 0" = empty, "lassign 1" = one split. As the first loop operation it is the
		// first round of the deployment
		if e.loop == nil {
			l := e.theLoopWith(f[1] == "0")
			if l.failure != "" {
				return l.failure
			}
			return "ok"
		}
		if e.loop.failure != "" {
			return e.loop.failure
		}
		return e.loop.assign(f[1] != "0")
	case "revs":
		// a keyed-event placeholder resolved with this batch, sent through the real sendOperatorEvent
		e.runner()
		batch := make([]*handlerpb.KeyedEvent, 0, len(f)-1)
		for i, s := range f[1:] {
			batch = append(batch, &handlerpb.KeyedEvent{Key: []byte{byte(i)}, Timestamp: timestamppb.New(timeOfNs(s))})
		}
		if err := e.sender.SendKeyed(batch); err != nil {
			return "error"
		}
		if _, ok := e.await(len(batch)); !ok {
			return "timeout"
		}
		return "ok"
	case "rtick":
		e.runner()
		if err := e.sender.SendWatermark(); err != nil {
			return "error"
		}
		got, ok := e.await(1)
		if !ok {
			return "timeout"
		}
		return got[0]
	case "keyed":
		return e.send("sr"+f[1], &workerpb.Event{Event: &workerpb.Event_KeyedEvent{KeyedEvent: &handlerpb.KeyedEvent{
			Key: lib.UnHex(f[2]), Value: []byte(f[3]), Timestamp: timestamppb.New(time.Unix(0, 0))}}})
	case "redeploy":
		return e.redeploy()
	case "barrier":
		return e.barrier()
	case "bar":
		i, _ := strconv.Atoi(f[1])
		return e.bar(i)
	case "recover":
		return e.recover()
	case "complete":
		return e.send("sr"+f[1], &workerpb.Event{Event: &workerpb.Event_SourceComplete{SourceComplete: &workerpb.SourceCompleteEvent{}}})
	case "wm":
		return e.send("sr"+f[1], &workerpb.Event{Event: &workerpb.Event_Watermark{Watermark: &workerpb.Watermark{Timestamp: timestamppb.New(timeOfNs(f[2]))}}})
	}
	return "bad-op"
}

// c11Perms appends all interleavings of per-runner watermark message lists (order within a runner kept).
func c11Interleave(lists [][]string, cur []string, out *[][]string) {
	done := true
	for i := range lists {
		if len(lists[i]) > 0 {
			done = false
			head := lists[i][0]
			lists[i] = lists[i][1:]
			c11Interleave(lists, append(cur, head), out)
			lists[i] = append([]string{head}, lists[i]...)
		}
	}
	if done {
		*out = append(*out, append([]string(nil), cur...))
	}
}

// c11OperatorCase generates a history for the real Operator: keyed events (whose handler response registers timers),
// watermark messages, source completions and redeployments from 1-4 runners. hdr is "M C11" or "M C10 op".
func c11OperatorCase(r *lib.Rng, hdr string) lib.Case {
	runners := r.Range(1, 4)
	maxBatch := r.Range(0, 4)
	// timer cache of the operator: the fixed 1 GB of HandleDeploy, or (through the accessor) 0 bytes / 1-5 timer keys
	cache := lib.Pick(r, []int{1 << 30, 1 << 30, 0, 13, 26, 30, 45, 70})
	c := lib.Case{Header: fmt.Sprintf("%s 0 %d %d 1 %d", hdr, maxBatch, runners, cache), Tags: []string{"operator"}}
	if cache < 100 {
		c.Tags = append(c.Tags, "smallcache")
	}
	if runners > 1 {
		c.Tags = append(c.Tags, "multi")
	}
	tag := func(t string) {
		for _, x := range c.Tags {
			if x == t {
				return
			}
		}
		c.Tags = append(c.Tags, t)
	}
	grid := r.Range(6, 30)
	scale := lib.Pick(r, []int64{1, 1, 1000, 1_000_000_000})
	wms := make([]int64, runners)
	active := make([]int, runners)
	reset := func() {
		active = active[:0]
		for k := 0; k < runners; k++ {
			active = append(active, k)
			wms[k] = 0
		}
	}
	reset()
	haveCkpt := false
	n := r.Range(8, 50)
	keys := []string{"6b", "61", "6262", "00"}
	for j := 0; j < n; j++ {
		if r.Chance(1, 25) {
			c.Ops = append(c.Ops, "redeploy")
			tag("redeploy")
			reset()
			continue
		}
		// a checkpoint (barriers of all runners), and later possibly a recovery from it
		if r.Chance(1, 14) {
			if runners > 1 && r.Bool() {
				// the barriers arrive one by one; runners that have not sent theirs go on sending in between
				order := make([]int, runners)
				for k := range order {
					order[k] = k
				}
				for k := runners - 1; k > 0; k-- {
					x := r.Intn(k + 1)
					order[k], order[x] = order[x], order[k]
				}
				isActive := func(ri int) bool {
					for _, a := range active {
						if a == ri {
							return true
						}
					}
					return false
				}
				for k, ri := range order {
					c.Ops = append(c.Ops, fmt.Sprintf("bar %d", ri))
					for _, rj := range order[k+1:] {
						if !isActive(rj) || !r.Chance(1, 2) {
							continue
						}
						if r.Bool() {
							wms[rj] += int64(r.Intn(grid/2+1)) * scale
							c.Ops = append(c.Ops, fmt.Sprintf("wm %d %d", rj, wms[rj]))
						} else {
							c.Ops = append(c.Ops, fmt.Sprintf("keyed %d %s %d", rj, lib.Pick(r, keys), int64(r.Intn(grid))*scale))
						}
					}
				}
				tag("alignment")
			} else {
				c.Ops = append(c.Ops, "barrier")
			}
			haveCkpt = true
			tag("barrier")
			continue
		}
		if haveCkpt && r.Chance(1, 14) {
			c.Ops = append(c.Ops, "recover")
			tag("recover")
			reset()
			continue
		}
		// a bounded source finishes: its runner sends SourceComplete and nothing afterwards (the operator stops when
		// its last active runner completes, so one always stays)
		if len(active) > 1 && r.Chance(1, 12) {
			x := r.Intn(len(active))
			c.Ops = append(c.Ops, fmt.Sprintf("complete %d", active[x]))
			active = append(active[:x], active[x+1:]...)
			tag("complete")
			continue
		}
		if r.Chance(1, 2) {
			k := r.Intn(4)
			ts := "-"
			if k > 0 {
				parts := make([]string, k)
				for x := range parts {
					parts[x] = strconv.FormatInt(int64(r.Intn(grid))*scale, 10)
				}
				ts = strings.Join(parts, ",")
			}
			c.Ops = append(c.Ops, fmt.Sprintf("keyed %d %s %s", lib.Pick(r, active), lib.Pick(r, keys), ts))
		} else {
			ri := lib.Pick(r, active)
			if r.Chance(1, 10) {
				wms[ri] = int64(r.Intn(grid)) * scale
			} else {
				wms[ri] += int64(r.Intn(grid/3+1)) * scale
			}
			c.Ops = append(c.Ops, fmt.Sprintf("wm %d %d", ri, wms[ri]))
		}
	}
	for _, ri := range active {
		c.Ops = append(c.Ops, fmt.Sprintf("wm %d %d", ri, int64(grid+1)*scale))
	}
	for j := 0; j < 4; j++ {
		c.Ops = append(c.Ops, fmt.Sprintf("keyed %d 61 -", active[0])) // push out what is still batched
	}
	return c
}

// c11CompletionCases: one runner completes early while another is ahead in event time; the completed runner's final
// watermark keeps bounding the operator's watermark (timers 10..40 stay pending at composite 5, fire when ... never here).
func c11CompletionCases(hdr string) []lib.Case {
	return []lib.Case{
		// alignment window: runner 0's barrier arrives, runner 1 advances the watermark past timer 5 (its TimerExpired stays
		// in the batch of 3), runner 1's barrier arrives: the batch is flushed BEFORE the checkpoint, so after recovery
		// timer 5 does not fire again and is not lost either (it was handled)
		{Header: hdr + " 0 3 2 1 26", Tags: []string{"recover", "barrier", "alignment", "multi", "operator", "smallcache"},
			Ops: []string{"keyed 0 6b 5,9", "wm 0 7", "bar 0", "wm 1 6", "bar 1", "recover", "wm 0 7", "wm 1 7", "wm 0 10", "wm 1 10", "keyed 0 61 -", "keyed 0 61 -", "keyed 0 61 -"}},
		// finding D45: a TimerExpired still batched when the operator is recovered is handed to the new deployment, whose
		// restored timer store fires the same timer again
		{Header: hdr + " 0 2 2 1 26", Tags: []string{"recover", "barrier", "multi", "operator", "D45"},
			Ops: []string{"keyed 0 6b 5,6", "keyed 0 61 -", "barrier", "wm 0 5", "wm 1 5", "recover", "wm 0 5", "wm 1 5", "keyed 0 61 -"}},
		// recovery through the real Operator with a 2-entry timer cache: timers 1-3 fire, checkpoint, 4-5 fire, recover:
		// 4 and 5 are pending again (6 still), 1-3 are not
		{Header: hdr + " 0 2 2 1 26", Tags: []string{"recover", "barrier", "multi", "operator", "smallcache"},
			Ops: []string{"keyed 0 6b 1,2,3,4,5,6", "keyed 0 61 -", "wm 0 3", "wm 1 3", "barrier", "wm 0 5", "wm 1 5", "keyed 0 61 -", "recover", "wm 0 4", "wm 1 4", "keyed 0 61 -", "wm 0 10", "wm 1 10", "keyed 0 61 -", "keyed 0 61 -"}},
		{Header: hdr + " 0 1 2 1", Tags: []string{"complete", "multi", "operator"},
			Ops: []string{"keyed 0 6b 10,20,30,40", "wm 0 5", "wm 1 25", "complete 0", "wm 1 35", "keyed 1 61 -", "wm 1 60", "keyed 1 61 -"}},
		{Header: hdr + " 0 2 3 1", Tags: []string{"complete", "multi", "operator"},
			Ops: []string{"keyed 0 6b 3,8,12", "wm 0 9", "wm 1 4", "wm 2 20", "complete 1", "wm 0 15", "wm 2 30", "complete 2", "wm 0 40", "keyed 0 61 -", "keyed 0 61 -"}},
	}
}

// c11RunOperatorOps runs operator-mode ops (header fields from the lateness on) on the real Operator.
func c11RunOperatorOps(hdr []string, ops []string) []string {
	c11Quiet.Do(func() { slog.SetDefault(slog.New(slog.NewTextHandler(io.Discard, nil))) }) // the operator logs through the default logger
	lat, _ := strconv.ParseInt(hdr[2], 10, 64)
	e := &c11Env{w: wmark.VerifNewWatermarker(time.Duration(lat)), hdr: hdr}
	for _, op := range ops {
		e.onDisk = e.onDisk || op == "recover"
	}
	defer e.close()
	out := make([]string, 0, len(ops))
	for _, op := range ops {
		out = append(out, e.step(op))
	}
	return out
}

func propC11() *lib.Prop {
	return &lib.Prop{
		ID:   "C11",
		Corr: "Model/Watermark.lean (Watermarker, runner stamping, upstream map, composite) + Model/Timers.lean (Registry, Op) ↔ wmark.Watermarker, operator.TimerRegistry and the real operator.Operator event loop (HandleEvent → handleWatermark/handleUserEvent/processEventBatch) with a logging handler",
		Rule: "cases = (a) event-timestamp sequences (ordered or not, with ties, zero-time and large values) fed to the real Watermarker with CurrentWatermark sampled at arbitrary points; " +
			"(b) keyed events (whose handler response registers timers) and watermark messages from 1-4 runners in scripted interleavings sent to a real Operator (one key group, in-memory DKV, batch sizes 1-4); compared: " +
			"(a') the same sequences sent through the real SourceRunner.sendOperatorEvent (placeholders resolved with event batches, watermark placeholders stamped when sent) to a recording operator; " +
			"(c) the runner's real event loop (Start, HandleDeploy, HandleAssignSplits rounds — a first EMPTY assignment with ticks of the idle runner, later rounds with or without a split — — also a second time on the same runner, whose watermarker survives —, processEvents, the send goroutine, key-event fetcher and operator batching with batch sizes 1-5 and no batch delay, 1-3 operators with keyed events routed by key and watermarks broadcast) fed by a scripted source and harness-controlled watermark ticks: the stream each operator receives, every value read at delivery, against the delivered-stream model; " +
			"checkpoints (barriers of all runners) and recovery of the same Operator from the last checkpoint on disk, timer caches of 0 bytes / 1-5 keys through the accessor VerifUseTimerCache, source completions (SourceComplete of a runner while others go on) and redeployments of the same Operator (HandleDeploy again, fresh storage) at arbitrary points; " +
			"every ProcessEventBatchRequest (Watermark field, keyed and TimerExpired events in order) and the registry's composite after each message; non-trivial = at least 2 runners whose latest watermarks differ at some point and a timer fired, or an unordered timestamp sequence with at least one sample; " +
			"fixed cases enumerate all interleavings of 2-3 runners x up to 2-3 messages",
		NumCases: func(tier string) int {
			if tier == "thorough" {
				return 6000
			}
			return 600
		},
		Fixed: func(tier string) []lib.Case {
			var cs []lib.Case
			// exhaustive interleavings: timers at 1..9 set first, then every order of the runners' messages
			mk := func(lists [][]string, runners int) {
				var outs [][]string
				c11Interleave(lists, nil, &outs)
				for _, o := range outs {
					c := lib.Case{Header: fmt.Sprintf("M C11 0 1 %d 1", runners), Tags: []string{"exhaustive", "multi"}}
					c.Ops = append(c.Ops, "keyed 0 6b 1,2,3,4,5,6,7,8,9")
					c.Ops = append(c.Ops, o...)
					c.Ops = append(c.Ops, "keyed 0 61 -")
					cs = append(cs, c)
				}
			}
			mk([][]string{{"wm 0 3", "wm 0 6", "wm 0 9"}, {"wm 1 4", "wm 1 5", "wm 1 8"}}, 2)
			mk([][]string{{"wm 0 5", "wm 0 2"}, {"wm 1 7", "wm 1 7"}, {"wm 2 1", "wm 2 9"}}, 3)
			if tier == "thorough" {
				mk([][]string{{"wm 0 3", "wm 0 6", "wm 0 9"}, {"wm 1 4", "wm 1 5", "wm 1 8"}, {"wm 2 2", "wm 2 7", "wm 2 9"}}, 3)
			}
			// the runner's event loop with batches of 4: two watermarks wait in one operator batch while a later event is
			// forwarded; each must arrive with the value it was stamped with (10, 9, 100, 99)
			cs = append(cs, lib.Case{Header: "M C11 0 4 1 1", Tags: []string{"loop"},
				Ops: []string{"lread 10 - - -", "ltick", "ldrain", "lread 100 - -", "lread -", "ltick", "ldrain"}})
			cs = append(cs, lib.Case{Header: "M C11 0 3 1 1", Tags: []string{"loop"},
				Ops: []string{"ltick", "lread 5+7 - 6", "ltick", "ltick", "ldrain", "lread 50 - -", "ltick", "ldrain", "ltick", "ltick", "ldrain"}})
			// redeployment of the same operator: until a runner of the new deployment reports, the handler is told
			// time.Time{} again, not the previous deployment's watermark
			cs = append(cs, lib.Case{Header: "M C11 0 1 2 1", Tags: []string{"redeploy", "multi"},
				Ops: []string{"keyed 0 6b 50000000000,200000000000", "wm 0 100000000000", "wm 1 100000000000", "keyed 0 61 -", "redeploy", "keyed 0 61 -", "keyed 1 6b 7", "wm 0 5", "keyed 0 61 -", "wm 1 9", "keyed 0 61 -"}})
			cs = append(cs, c11CompletionCases("M C11")...)
			// two operators: keyed events are routed by key, every watermark goes to both (the same stamped message)
			cs = append(cs, lib.Case{Header: "M C11 0 2 2 1", Tags: []string{"loop", "multiop"},
				Ops: []string{"lread 10:6b 20:61", "ltick", "lread 100:62 -", "ltick", "ldrain", "ltick", "lread 7:00 300:6b", "ltick", "ldrain"}})
			// the runner is deployed a second time: its watermarker keeps the old maximum (watermark 49 before any new
			// event; an older replayed event does not lower it)
			cs = append(cs, lib.Case{Header: "M C11 0 1 2 1", Tags: []string{"loop", "multiop", "runner-redeploy"},
				Ops: []string{"lread 50:6b", "ldrain", "ltick", "ldrain", "ldeploy", "ltick", "ldrain", "lread 10:61", "ldrain", "ltick", "ldrain", "lread 60:6b", "ldrain", "ltick", "ldrain"}})
			// split-assignment rounds: the runner's first assignment is empty (more runners than splits), it ticks while idle,
			// a later round hands it a split; an idle runner's watermark is what its watermarker says (time.Time{} - 1ns), and
			// it never decreases when the runner starts reading; a later empty round changes nothing either
			cs = append(cs, lib.Case{Header: "M C11 0 1 1 1", Tags: []string{"loop", "assign"},
				Ops: []string{"lassign 0", "ltick", "ltick", "ldrain", "lassign 1", "lread 100", "ltick", "ldrain", "lassign 0", "ltick", "lread 50", "ltick", "ldrain"}})
			// before any watermark message the handler is told time.Time{}; a runner that saw no event reports below the epoch
			// (regression case of finding D58, repaired by 204a1f7: before any watermark message the handler is told the epoch)
			cs = append(cs, lib.Case{Header: "M C11 0 2 2 1", Tags: []string{"initial", "D58"},
				Ops: []string{"tick", "keyed 0 6b 5", "keyed 1 6b 0", "wm 0 10", "keyed 0 61 -", "wm 1 -62135596800000000001", "keyed 0 61 -", "keyed 0 61 -", "wm 1 7", "keyed 0 61 -"}})
			return cs
		},
		Gen: func(r *lib.Rng, tier string, i int) lib.Case {
			if i%4 == 1 {
				// (c) the runner's real event loop: reads, watermark ticks, batches of n, delivery observed at the operator
				n := r.Range(1, 5)
				k := lib.Pick(r, []int{1, 1, 2, 3})
				// a second HandleDeploy on the same runner (its watermarker survives) only with batches of 1 and a
				// drain after every step: the code leaves the old deployment's goroutines running (D39, C01)
				redeploys := r.Chance(1, 4)
				if redeploys {
					n = 1
				}
				c := lib.Case{Header: fmt.Sprintf("M C11 0 %d %d 1", n, k), Tags: []string{"loop"}}
				if k > 1 {
					c.Tags = append(c.Tags, "multiop")
				}
				if redeploys {
					c.Tags = append(c.Tags, "runner-redeploy")
				}
				lkeys := []string{"6b", "61", "62", "6162", "00", "ff01"}
				// split-assignment rounds: a third of the cases start with an EMPTY assignment (idle runner: ticks only)
				// and get their split later; further rounds (empty or not) arrive at arbitrary points
				idleFirst := r.Chance(1, 3)
				hasSplit := true
				if idleFirst {
					c.Tags = append(c.Tags, "assign")
					c.Ops = append(c.Ops, "lassign 0")
					for x := r.Range(1, 4); x > 0; x-- {
						c.Ops = append(c.Ops, "ltick")
					}
					c.Ops = append(c.Ops, "ldrain", "lassign 1")
				}
				scale := lib.Pick(r, []int64{1, 1000, 1_000_000_000})
				cur := int64(r.Intn(10))
				steps := r.Range(4, 25)
				for j := 0; j < steps; j++ {
					if redeploys && len(c.Ops) > 0 {
						c.Ops = append(c.Ops, "ldrain")
						if r.Chance(1, 6) {
							c.Ops = append(c.Ops, "ldeploy")
							if r.Chance(1, 2) {
								cur = int64(r.Intn(10)) // the source replays older events after the redeployment
							}
						}
					}
					if r.Chance(1, 12) {
						a := r.Intn(2)
						c.Ops = append(c.Ops, fmt.Sprintf("lassign %d", a))
						if a == 1 {
							hasSplit = true
						} else if len(c.Ops) == 1 {
							hasSplit = false // the deployment's first round is empty: nothing to read yet
						}
					}
					if !hasSplit {
						c.Ops = append(c.Ops, "ltick") // an idle runner only ticks
						continue
					}
					switch r.Intn(5) {
					case 0, 1:
						c.Ops = append(c.Ops, "ltick")
					case 2:
						c.Ops = append(c.Ops, "ldrain")
					default:
						k := r.Range(1, n+1)
						if redeploys {
							k = 1 // one placeholder in flight at a time (see above)
						}
						op := "lread"
						for ; k > 0; k-- {
							switch r.Intn(4) {
							case 0:
								op += " -"
							case 1:
								cur += int64(r.Intn(9)) - 3
								if cur < 0 {
									cur = 0
								}
								a := cur * scale
								cur += int64(r.Intn(5))
								op += fmt.Sprintf(" %d:%s+%d:%s", a, lib.Pick(r, lkeys), cur*scale, lib.Pick(r, lkeys))
							default:
								cur += int64(r.Intn(9)) - 2
								if cur < 0 {
									cur = 0
								}
								op += fmt.Sprintf(" %d:%s", cur*scale, lib.Pick(r, lkeys))
							}
						}
						c.Ops = append(c.Ops, op)
					}
				}
				c.Ops = append(c.Ops, "ldrain")
				return c
			}
			if i%3 == 0 {
				// (a) watermarker
				lat := lib.Pick(r, []int64{0, 0, 1, 5, 1000, 1_000_000_000, 3_600_000_000_000})
				c := lib.Case{Header: fmt.Sprintf("M C11 %d 1 1 1", lat), Tags: []string{"watermarker"}}
				// half of the cases go through the real runner's send path (its watermarker has no allowed lateness)
				evs, tick := "evs", "tick"
				if r.Bool() {
					evs, tick = "revs", "rtick"
					c.Tags = append(c.Tags, "runner")
				}
				scale := lib.Pick(r, []int64{1, 7, 1_000_000, 1_700_000_000_000_000_000 / 50})
				n := r.Range(5, 60)
				cur := int64(r.Intn(20)) - 5
				for j := 0; j < n; j++ {
					if r.Chance(1, 3) {
						c.Ops = append(c.Ops, tick)
						continue
					}
					k := r.Range(1, 4)
					op := evs
					for ; k > 0; k-- {
						switch r.Intn(5) {
						case 0:
							cur -= int64(r.Intn(10)) // late event
						case 1: // equal
						default:
							cur += int64(r.Intn(6))
						}
						op += fmt.Sprintf(" %d", cur*scale) // late events may go below the epoch
					}
					c.Ops = append(c.Ops, op)
				}
				c.Ops = append(c.Ops, tick)
				return c
			}
			// (b) operator
			return c11OperatorCase(r, "M C11")
		},
		Impl: func(c lib.Case) []string { return c11RunOperatorOps(strings.Fields(c.Header), c.Ops) },
		Nontrivial: func(c lib.Case, out []string) bool {
			multi, wmk := false, false
			for _, t := range c.Tags {
				multi = multi || t == "multi"
				wmk = wmk || t == "watermarker"
			}
			if wmk {
				return true
			}
			for _, t := range c.Tags {
				if t == "loop" {
					// at least one watermark reached the operator
					for i, o := range out {
						if c.Ops[i] == "ldrain" && strings.Contains(o, "w") {
							return true
						}
					}
					return false
				}
			}
			fired := false
			for _, o := range out {
				if strings.Contains(o, "x") && strings.Contains(o, "@") {
					fired = true
				}
			}
			return multi && fired
		},
	}
}
