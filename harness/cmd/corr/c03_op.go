package main

// C03, mode "op": the REAL operator.Operator driven end to end.
//
//   batch (ev <key>)* (res ..)*   keyed events, flushed by fullness or by the batcher's timeout     → KeyStates
//   wm <t> (res ..)*              watermark: due timers are popped (deleted from the DKV) and become TimerExpired
//                                 events of one or more handler invocations (chunks of the batch size); the scripted
//                                 response answers the first invocation                               → per invocation
//                                 `<fired events>=><KeyStates>`, joined by ` | `, or `none`
//   ckpt                          checkpoint barrier: DKV checkpoint, handle recorded by the fake job → ok
//   restart [new] [<id>]          the operator is redeployed from its latest checkpoint or from the retained checkpoint
//                                 <id> (same Operator object, or a fresh Operator over the same storage directory) → ok
//   rot / wait                    forced memtable rotation / join of the background tasks            → ok
//
// The order in which equal-time timers of different key groups fire is the timer store's business (C10): the driver
// reads the fired events of each invocation from the implementation's output (trace validation), checks them against
// its own set of due timers and chunking rule, and derives the KeyStates itself.

import (
	"context"
	"fmt"
	"io"
	"log/slog"
	"os"
	"runtime"
	"strconv"
	"strings"
	"sync"
	"sync/atomic"
	"time"

	"google.golang.org/protobuf/types/known/timestamppb"
	"reduction.dev/reduction-protocol/handlerpb"
	"reduction.dev/reduction/batching"
	"reduction.dev/reduction/connectors/embedded"
	"reduction.dev/reduction/dkv"
	"reduction.dev/reduction/partitioning"
	"reduction.dev/reduction/proto"
	"reduction.dev/reduction/proto/jobpb"
	"reduction.dev/reduction/proto/snapshotpb"
	"reduction.dev/reduction/proto/workerpb"
	"reduction.dev/reduction/util/verifhook"
	"reduction.dev/reduction/workers/operator"
	"verif/harness/lib"
)

type c03Timer struct {
	mu sync.Mutex
	do func()
}

func (t *c03Timer) Set(d time.Duration, do func()) { t.mu.Lock(); t.do = do; t.mu.Unlock() }
func (t *c03Timer) Stop()                          { t.mu.Lock(); t.do = nil; t.mu.Unlock() }
func (t *c03Timer) take() func() {
	t.mu.Lock()
	defer t.mu.Unlock()
	do := t.do
	t.do = nil
	return do
}

// fake job: remembers every completed operator checkpoint (recovery may restore an older one than the latest)
type c03Job struct {
	proto.NoopJob
	mu   sync.Mutex
	acks []*snapshotpb.OperatorCheckpoint // oldest first; a restore keeps only the restored one
}

func (j *c03Job) OperatorCheckpointComplete(ctx context.Context, req *snapshotpb.OperatorCheckpoint) error {
	j.mu.Lock()
	defer j.mu.Unlock()
	j.acks = append(j.acks, req)
	return nil
}

// find returns the retained checkpoint with the id (0 = the latest one)
func (j *c03Job) find(id uint64) *snapshotpb.OperatorCheckpoint {
	j.mu.Lock()
	defer j.mu.Unlock()
	if id == 0 && len(j.acks) > 0 {
		return j.acks[len(j.acks)-1]
	}
	for _, a := range j.acks {
		if a.CheckpointId == id {
			return a
		}
	}
	return nil
}

// after a restore only the restored checkpoint is in the reopened database's checkpoint document
func (j *c03Job) keepOnly(id uint64) {
	j.mu.Lock()
	defer j.mu.Unlock()
	n := 0
	for _, a := range j.acks {
		if a.CheckpointId == id {
			j.acks[n] = a
			n++
		}
	}
	j.acks = j.acks[:n]
}

type c03Inv struct{ events, states string }

// reference handler: reports the events and the KeyStates it is given (KeyStates in order of first occurrence of the
// key among the events), returns the scripted response
type c03Handler struct {
	mu   sync.Mutex
	next *handlerpb.ProcessEventBatchResponse
	seen []c03Inv
}

func (h *c03Handler) KeyEventBatch(ctx context.Context, events [][]byte) ([][]*handlerpb.KeyedEvent, error) {
	panic("unused by operators")
}

func (h *c03Handler) ProcessEventBatch(ctx context.Context, req *handlerpb.ProcessEventBatchRequest) (*handlerpb.ProcessEventBatchResponse, error) {
	given := map[string][]*handlerpb.KeyState{}
	for _, ks := range req.KeyStates {
		given[string(ks.Key)] = append(given[string(ks.Key)], ks)
	}
	var parts, evs []string
	done := map[string]bool{}
	for _, ev := range req.Events {
		var k []byte
		switch e := ev.Event.(type) {
		case *handlerpb.Event_KeyedEvent:
			k = e.KeyedEvent.Key
			evs = append(evs, lib.Hex(k))
		case *handlerpb.Event_TimerExpired:
			k = e.TimerExpired.Key
			evs = append(evs, lib.Hex(k)+"@"+strconv.FormatInt(e.TimerExpired.Timestamp.AsTime().UnixNano(), 10))
		}
		if done[string(k)] {
			continue
		}
		done[string(k)] = true
		switch g := given[string(k)]; len(g) {
		case 0:
			parts = append(parts, lib.Hex(k)+":missing")
		case 1:
			parts = append(parts, lib.Hex(k)+":"+c03ShowState(g[0].StateEntryNamespaces))
		default:
			parts = append(parts, lib.Hex(k)+":duplicate-key-state")
		}
	}
	for _, ks := range req.KeyStates {
		if !done[string(ks.Key)] {
			done[string(ks.Key)] = true
			parts = append(parts, "unrequested:"+lib.Hex(ks.Key))
		}
	}
	h.mu.Lock()
	defer h.mu.Unlock()
	h.seen = append(h.seen, c03Inv{strings.Join(evs, ","), strings.Join(parts, ";")})
	resp := h.next
	h.next = nil
	if resp == nil {
		resp = &handlerpb.ProcessEventBatchResponse{}
	}
	return resp, nil
}

func (h *c03Handler) script(res []c03Res) {
	var resp *handlerpb.ProcessEventBatchResponse
	if res != nil {
		resp = &handlerpb.ProcessEventBatchResponse{}
		for _, r := range res {
			kr := &handlerpb.KeyResult{Key: r.key, StateMutationNamespaces: c03ToPB(r.nss)}
			for _, t := range r.timers {
				kr.NewTimers = append(kr.NewTimers, timestamppb.New(time.Unix(0, t)))
			}
			resp.KeyResults = append(resp.KeyResults, kr)
		}
	}
	h.mu.Lock()
	h.next = resp
	h.mu.Unlock()
}

func (h *c03Handler) takeSeen() []c03Inv {
	h.mu.Lock()
	defer h.mu.Unlock()
	s := h.seen
	h.seen = nil
	return s
}

const c03OpID = "c03op"

// one running operator process
type c03Proc struct {
	op     *operator.Operator
	ctx    context.Context
	cancel context.CancelFunc
	done   chan struct{}
}

func c03StartProc(h *c03Handler, job *c03Job, timer *c03Timer, batch int) *c03Proc {
	p := &c03Proc{done: make(chan struct{})}
	p.op = operator.NewOperator(operator.NewOperatorParams{
		ID:            c03OpID,
		UserHandler:   h,
		Job:           job,
		EventBatching: batching.EventBatcherParams{MaxSize: batch, MaxDelay: time.Hour, Timer: timer},
	})
	p.ctx, p.cancel = context.WithCancel(context.Background())
	started := make(chan struct{})
	go func() { close(started); p.op.Start(p.ctx); close(p.done) }()
	<-started
	return p
}

func (p *c03Proc) sync() bool {
	ch := make(chan struct{})
	go func() { p.op.VerifSync(); close(ch) }()
	select {
	case <-ch:
		return true
	case <-time.After(c03Wait):
		return false
	}
}

func (p *c03Proc) deploy(cfg c03Cfg, dir string, ckpt *snapshotpb.OperatorCheckpoint) string {
	req := &workerpb.DeployOperatorRequest{
		Operators:       []*jobpb.NodeIdentity{{Id: c03OpID, Host: "h"}},
		SourceRunnerIds: []string{"s0"},
		KeyGroupCount:   int32(cfg.kgc),
		StorageLocation: dir,
	}
	if ckpt != nil {
		req.Checkpoints = []*snapshotpb.OperatorCheckpoint{ckpt}
	}
	errc := make(chan error, 1)
	go func() {
		defer func() {
			if r := recover(); r != nil {
				errc <- fmt.Errorf("panic %v", r)
			}
		}()
		errc <- p.op.HandleDeploy(p.ctx, req, &embedded.RecordingSink{})
	}()
	select {
	case err := <-errc:
		if err != nil {
			return "deploy " + strings.ReplaceAll(err.Error(), "\n", " ")
		}
	case <-time.After(c03Wait):
		if os.Getenv("VERIF_DEBUG") != "" {
			buf := make([]byte, 1<<20)
			os.Stderr.Write(buf[:runtime.Stack(buf, true)])
		}
		return "deploy-timeout"
	}
	for i := 0; !p.op.VerifReady() && i < 2000; i++ {
		time.Sleep(time.Millisecond)
	}
	if !p.op.VerifReady() || !p.sync() {
		return "operator-not-ready"
	}
	return ""
}

func (p *c03Proc) send(ev *workerpb.Event) string {
	ch := make(chan error, 1)
	go func() { ch <- p.op.HandleEvent(p.ctx, "s0", ev) }()
	select {
	case err := <-ch:
		if err != nil {
			return "error " + strings.ReplaceAll(err.Error(), "\n", " ")
		}
		return ""
	case <-time.After(c03Wait):
		return "timeout"
	}
}

func c03ImplOp(c lib.Case, cfg c03Cfg) []string {
	slog.SetDefault(slog.New(slog.NewTextHandler(io.Discard, nil)))
	dir, err := os.MkdirTemp("", "c03op-")
	if err != nil {
		return []string{"tmpdir " + err.Error()}
	}
	defer os.RemoveAll(dir)
	h := &c03Handler{}
	job := &c03Job{}
	timer := &c03Timer{}
	var mid atomic.Pointer[dkv.DB]
	pins := &c03Pins{}
	verifhook.Set(c03Hook(&mid, pins))
	proc := c03StartProc(h, job, timer, cfg.batch)
	var db *dkv.DB
	var pinned []*dkv.DB
	defer func() {
		if db != nil {
			c03WaitTasks(db)
		}
		runtime.KeepAlive(pinned)
		runtime.KeepAlive(pins)
		verifhook.Set(nil)
		proc.cancel()
	}()
	if e := proc.deploy(cfg, dir, nil); e != "" {
		return []string{e}
	}
	db = proc.op.VerifDB()
	c03Tune(db, cfg)
	ks := partitioning.NewKeySpace(cfg.kgc, 1)
	preflight := operator.NewKeyedStateStore(db, ks)
	rot := &c03Rot{}
	ckpt := uint64(0)
	timerKeys := map[string]bool{}

	// flush a partial batch through the batcher's timeout: the callback returns once the event loop has taken the
	// batch token; the loop then runs the batch
	flushByTimeout := func(required bool) string {
		do := timer.take()
		if do == nil {
			if required {
				return "no-batch-timer"
			}
			return ""
		}
		sent := make(chan struct{})
		go func() { do(); close(sent) }()
		select {
		case <-sent:
			return ""
		case <-time.After(c03Wait):
			return "timeout"
		}
	}
	// pre-flight on this goroutine: the same GetState calls the event loop is about to make. A panic in the store then
	// surfaces here (recovered as the observation of the op) instead of killing the process from the operator's goroutine.
	pre := func(keys [][]byte) {
		for _, k := range keys {
			if _, err := preflight.GetState(k); err != nil {
				panic(fmt.Sprintf("GetState: %v", err))
			}
		}
	}
	noteTimers := func(res []c03Res) {
		for _, r := range res {
			if len(r.timers) > 0 {
				timerKeys[string(r.key)] = true
			}
		}
	}

	out := make([]string, 0, len(c.Ops))
	opOne := func(opl string) string {
		f := strings.Fields(opl)
		switch f[0] {
		case "batch":
			evs, res, ok := c03ParseBatch(f[1:])
			if !ok || len(evs) == 0 || len(evs) > cfg.batch {
				return "bad-op"
			}
			h.script(res)
			noteTimers(res)
			pre(evs)
			for i, k := range evs {
				if e := proc.send(&workerpb.Event{Event: &workerpb.Event_KeyedEvent{KeyedEvent: &handlerpb.KeyedEvent{Key: k, Value: []byte{byte(i)}, Timestamp: timestamppb.New(time.Unix(0, 1))}}}); e != "" {
					return e
				}
			}
			if len(evs) < cfg.batch {
				if e := flushByTimeout(true); e != "" {
					return e
				}
			}
			if !proc.sync() {
				return "timeout"
			}
			seen := h.takeSeen()
			h.script(nil)
			if len(seen) == 0 {
				return "handler-not-invoked"
			}
			parts := make([]string, len(seen))
			for i, s := range seen {
				parts[i] = s.states
			}
			return strings.Join(parts, " | ")
		case "wm":
			if len(f) < 2 {
				return "bad-op"
			}
			t, _ := strconv.ParseInt(f[1], 10, 64)
			_, res, ok := c03ParseBatch(f[2:])
			if !ok {
				return "bad-op"
			}
			h.script(res)
			noteTimers(res)
			var keys [][]byte
			for k := range timerKeys {
				keys = append(keys, []byte(k))
			}
			pre(keys)
			if e := proc.send(&workerpb.Event{Event: &workerpb.Event_Watermark{Watermark: &workerpb.Watermark{Timestamp: timestamppb.New(time.Unix(0, t))}}}); e != "" {
				return e
			}
			if e := flushByTimeout(false); e != "" { // timers left in a partial batch
				return e
			}
			if !proc.sync() {
				return "timeout"
			}
			seen := h.takeSeen()
			h.script(nil)
			if len(seen) == 0 {
				return "none"
			}
			parts := make([]string, len(seen))
			for i, s := range seen {
				parts[i] = s.events + "=>" + s.states
			}
			return strings.Join(parts, " | ")
		case "ckpt":
			ckpt++
			if e := proc.send(&workerpb.Event{Event: &workerpb.Event_CheckpointBarrier{CheckpointBarrier: &workerpb.CheckpointBarrier{CheckpointId: ckpt}}}); e != "" {
				return e
			}
			if l := job.find(0); l == nil || l.CheckpointId != ckpt {
				return "checkpoint-not-acknowledged"
			}
			return "ok"
		case "restart": // restart [new] [<id>]
			fresh, want := false, uint64(0)
			for _, a := range f[1:] {
				if a == "new" {
					fresh = true
				} else {
					want, _ = strconv.ParseUint(a, 10, 64)
				}
			}
			last := job.find(want)
			if last == nil {
				return "no-checkpoint"
			}
			// the previous incarnation is gone before the next one opens the same directory
			if e := c03WaitTasks(db); e != "ok" {
				return e
			}
			// Table files are deleted by cleanups attached to table objects, run by the garbage collector. Inside one
			// living process the cleanups of a released instance keep firing after the redeploy: they delete files the
			// checkpoint still references (open finding D25, C09) and files of the same name the successor has written
			// since (table numbering restarts above the checkpoint's tables). Both make the redeployed operator fail
			// with "file not found" at a collector-dependent moment. Every table object of the case is therefore kept
			// reachable (released instances here, tables leaving a level list in c03Hook) until the case ends: this
			// check observes the keyed state, not the collector's timing.
			pinned = append(pinned, db)
			if fresh {
				proc.cancel()
				select {
				case <-proc.done:
				case <-time.After(c03Wait):
					return "stop-timeout"
				}
				proc = c03StartProc(h, job, timer, cfg.batch)
			}
			if e := proc.deploy(cfg, dir, last); e != "" {
				return e
			}
			job.keepOnly(last.CheckpointId) // LoadCheckpointList keeps the named checkpoint only
			db = proc.op.VerifDB()
			c03Tune(db, cfg)
			preflight = operator.NewKeyedStateStore(db, ks)
			rot.lastSeq = db.VerifSeqNum()
			return "ok"
		case "rot":
			rot.rotate(db)
			return "ok"
		case "wait":
			return c03WaitTasks(db)
		}
		return "bad-op"
	}
	for _, opl := range c.Ops {
		n := len(out)
		func() {
			defer c03Recover(&out, n)
			out = append(out, opOne(opl))
		}()
	}
	return out
}
