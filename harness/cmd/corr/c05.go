package main

import (
	"context"
	"errors"
	"fmt"
	"io"
	"log/slog"
	"strconv"
	"strings"
	"sync"
	"time"
	"verif/harness/lib"

	"google.golang.org/protobuf/types/known/timestamppb"
	"reduction.dev/reduction-protocol/handlerpb"
	"reduction.dev/reduction/batching"
	"reduction.dev/reduction/clocks"
	"reduction.dev/reduction/config"
	"reduction.dev/reduction/connectors"
	"reduction.dev/reduction/connectors/embedded"
	"reduction.dev/reduction/jobs"
	"reduction.dev/reduction/partitioning"
	"reduction.dev/reduction/proto"
	"reduction.dev/reduction/proto/jobpb"
	"reduction.dev/reduction/proto/snapshotpb"
	"reduction.dev/reduction/proto/workerpb"
	"reduction.dev/reduction/util/murmur"
	"reduction.dev/reduction/workers/operator"
	"reduction.dev/reduction/workers/sourcerunner"
)

func init() { register("C05", propC05) }

type recOp struct {
	proto.UnimplementedOperator
	idx int
	got chan int
}

func (o *recOp) HandleEventBatch(ctx context.Context, batch []*workerpb.Event) error {
	for range batch {
		o.got <- o.idx
	}
	return nil
}
func (o *recOp) ID() string { return fmt.Sprintf("op%d", o.idx) }

type routerCache struct {
	mu sync.Mutex
	m  map[[2]int]*routerEntry
}
type routerEntry struct {
	r   *sourcerunner.VerifRouter
	got chan int
}

var routers = routerCache{m: map[[2]int]*routerEntry{}}

func getRouter(kgc, n int) *routerEntry {
	routers.mu.Lock()
	defer routers.mu.Unlock() // the constructor runs real code and may panic
	e, ok := routers.m[[2]int{kgc, n}]
	if !ok {
		got := make(chan int, 4)
		ops := make([]proto.Operator, n)
		for i := range ops {
			ops[i] = &recOp{idx: i, got: got}
		}
		e = &routerEntry{r: sourcerunner.VerifNewRouter(kgc, ops, batching.EventBatcherParams{MaxSize: 1}), got: got}
		if len(routers.m) > 64 {
			for k, v := range routers.m {
				v.r.Close()
				delete(routers.m, k)
			}
		}
		routers.m[[2]int{kgc, n}] = e
	}
	return e
}

func routeOnce(kgc, n int, key []byte) string {
	e := getRouter(kgc, n)
	e.r.Route(key, &workerpb.Event{})
	select {
	case i := <-e.got:
		return strconv.Itoa(i)
	case <-time.After(5 * time.Second):
		return "timeout"
	}
}

// fanOp records which operator receives which key.
type fanOp struct {
	proto.UnimplementedOperator
	idx int
	got chan [2]string
}

func (o *fanOp) HandleEventBatch(ctx context.Context, batch []*workerpb.Event) error {
	for _, ev := range batch {
		o.got <- [2]string{string(ev.GetKeyedEvent().GetKey()), strconv.Itoa(o.idx)}
	}
	return nil
}
func (o *fanOp) ID() string { return fmt.Sprintf("op%d", o.idx) }

// fanout sends ONE source record whose KeyEvent result is one keyed event per given (distinct) key through the
// real SourceRunner.sendOperatorEvent and reports, per key in the given order, the operator that received it.
func fanout(kgc, n int, keys [][]byte) string {
	got := make(chan [2]string, len(keys)+1)
	ops := make([]proto.Operator, n)
	for i := range ops {
		ops[i] = &fanOp{idx: i, got: got}
	}
	s := sourcerunner.VerifNewSender(kgc, ops)
	defer s.Close()
	batch := make([]*handlerpb.KeyedEvent, len(keys))
	for i, k := range keys {
		batch[i] = &handlerpb.KeyedEvent{Key: k, Timestamp: timestamppb.New(time.Unix(int64(i), 0))}
	}
	if err := s.SendKeyed(batch); err != nil {
		return "err"
	}
	where := map[string][]string{}
	for range keys {
		select {
		case g := <-got:
			where[g[0]] = append(where[g[0]], g[1])
		case <-time.After(5 * time.Second):
			return "timeout"
		}
	}
	out := make([]string, len(keys))
	for i, k := range keys {
		w := where[string(k)]
		if len(w) != 1 {
			out[i] = fmt.Sprintf("x%d", len(w))
		} else {
			out[i] = w[0]
		}
	}
	return strings.Join(out, ",")
}

func c05Key(r *lib.Rng) []byte {
	switch r.Intn(6) {
	case 0:
		return nil
	case 1:
		return []byte{byte(r.Intn(256))}
	case 2:
		b := r.Bytes(r.Range(1, 12))
		for i := range b {
			if r.Chance(1, 3) {
				b[i] = lib.Pick(r, []byte{0, 0xff, 0x80, 0x7f})
			}
		}
		return b
	case 3:
		return []byte(fmt.Sprintf("user-%d", r.Intn(1000)))
	default:
		return r.Bytes(r.Range(0, 64))
	}
}

func propC05() *lib.Prop {
	special := []int{255, 256, 257, 65535}
	specialN := []int{1, 2, 3, 7, 256, 65535, 70000}
	return &lib.Prop{
		ID:   "C05",
		Corr: "Model/KeySpace.lean+Model/Murmur.lean+Model/Assembly.lean ↔ partitioning, util/murmur, key encoders, OwnsKey, operatorCluster.routeEvent, jobs.Registry.NewAssembly + Assembly.Deploy + SourceRunner.HandleDeploy + Operator.HandleDeploy",
		Rule: "cases = blocks of ops over (kgc,n) configurations (exhaustive small grid + boundary values) and random/structured keys; non-trivial = block contains a configuration where n does not divide kgc or n > kgc, or a deployment (registry → Deploy → HandleDeploy on real runners and operators)",
		NumCases: func(tier string) int {
			if tier == "thorough" {
				return 3000
			}
			return 400
		},
		Fixed: func(tier string) []lib.Case {
			var cs []lib.Case
			maxK, maxN := 40, 45
			if tier == "thorough" {
				maxK, maxN = 150, 160
			}
			for kgc := 1; kgc <= maxK; kgc++ {
				c := lib.Case{Header: "M C05", Tags: []string{"grid"}}
				for n := 1; n <= maxN; n++ {
					c.Ops = append(c.Ops, fmt.Sprintf("ranges %d %d", kgc, n))
				}
				cs = append(cs, c)
			}
			c := lib.Case{Header: "M C05", Tags: []string{"boundary"}}
			for _, k := range special {
				for _, n := range specialN {
					c.Ops = append(c.Ops, fmt.Sprintf("ranges %d %d", k, n))
				}
			}
			cs = append(cs, c)
			// MurmurHash3-32 reference vectors (the property names the function): expected value is part of the op
			v := lib.Case{Header: "M C05", Tags: []string{"vectors"}}
			for _, kv := range c05Vectors {
				v.Ops = append(v.Ops, fmt.Sprintf("hashvec %s %s %s", kv[0], kv[1], kv[2]))
			}
			cs = append(cs, v)
			// the uint16 lookup-table path at the largest key-group counts (the driver builds the same table once per block)
			fr := lib.NewRng(20250926)
			for _, cfg := range [][2]int{{65535, 7}, {65535, 65535}, {65535, 70000}, {65534, 300}, {32769, 2}, {4097, 4096}} {
				b := lib.Case{Header: "M C05", Tags: []string{"boundary", "bigtable"}}
				for j := 0; j < 40; j++ {
					b.Ops = append(b.Ops, fmt.Sprintf("ri %d %d %s", cfg[0], cfg[1], lib.Hex(c05Key(fr))))
				}
				b.Ops = append(b.Ops, fmt.Sprintf("partition %d %d", cfg[0], min(cfg[1], 300)))
				cs = append(cs, b)
			}
			// deployment-level witnesses: ids registered out of order / twice / deregistered, more nodes than tasks,
			// more operators than key groups, not enough nodes
			d := lib.Case{Header: "M C05", Tags: []string{"deploy", "uneven"}}
			d.Ops = append(d.Ops,
				"deploy 7 3 o6f7033,s7339,o6f7031,o6f7032,o6f7031,s7338,s7337 68656c6c6f,-,21",
				"deploy 256 2 o6f702d3130,o6f702d32,o6f702d31,s61,s62,s63,O6f702d31 68656c6c6f,00,ff,757365722d31",
				"deploy 2 4 o61,o62,o63,o64,o65,s61,s62,s63,s64 68656c6c6f,-,21,2143",
				"deploy 65535 3 o7a,o79,o78,s31,s32,s33 68656c6c6f,21436587",
				"deploy 16 3 o61,o62,s61,s62,s63 21",
				"deploy 16 2 o61,o62,o63,O62,s61,s62,S61 21")
			cs = append(cs, d)
			return cs
		},
		Gen: func(r *lib.Rng, tier string, i int) lib.Case {
			c := lib.Case{Header: "M C05"}
			var kgc, n int
			switch r.Intn(4) {
			case 0:
				kgc, n = lib.Pick(r, special), lib.Pick(r, []int{1, 2, 3, 7, 256, 300})
			case 1:
				kgc, n = r.Range(1, 65535), r.Range(1, 200)
			default:
				kgc, n = r.Range(1, 64), r.Range(1, 70)
			}
			if n > 64 && r.Chance(3, 4) {
				n = r.Range(1, 64)
			}
			ranges := refRanges(kgc, n)
			for j := 0; j < 30; j++ {
				k := c05Key(r)
				hk := lib.Hex(k)
				switch r.Intn(9) {
				case 0:
					c.Ops = append(c.Ops, fmt.Sprintf("hash %s %d", hk, lib.Pick(r, []int{0, 0, 0, 1, 42})))
				case 1:
					c.Ops = append(c.Ops, fmt.Sprintf("kg %d %s", kgc, hk))
				case 2:
					c.Ops = append(c.Ops, fmt.Sprintf("ri %d %d %s", kgc, n, hk))
				case 3:
					if n <= 64 {
						c.Ops = append(c.Ops, fmt.Sprintf("route %d %d %s", kgc, n, hk))
						if r.Chance(1, 2) {
							// one source record fanned out to several keys by the handler's KeyEvent
							seen := map[string]bool{hk: true}
							ks := []string{hk}
							for m := r.Range(1, 5); m > 0; m-- {
								h2 := lib.Hex(c05Key(r))
								if !seen[h2] {
									seen[h2] = true
									ks = append(ks, h2)
								}
							}
							c.Ops = append(c.Ops, fmt.Sprintf("fanout %d %d %s", kgc, n, strings.Join(ks, ",")))
						}
					}
				case 4:
					c.Ops = append(c.Ops, fmt.Sprintf("dbkey %d %s %s %s", kgc, hk, lib.Hex([]byte(lib.Pick(r, []string{"", "a", "ab", "ns"}))), lib.Hex(r.Bytes(r.Intn(5)))))
				case 5:
					c.Ops = append(c.Ops, fmt.Sprintf("timerkey %d %s %d", kgc, hk, lib.Pick(r, []uint64{0, 1, 1000, 1 << 40, 1<<62 + 12345})))
				case 6:
					// ownership of a persisted key by a range of this configuration: agree with routing
					rg := lib.Pick(r, ranges)
					pk := append([]byte{byte(r.Intn(kgc) >> 8), byte(r.Intn(256))}, k...)
					if r.Bool() {
						pk = append([]byte{byte(rg.Start >> 8), byte(rg.Start)}, k...)
					} else if r.Bool() {
						pk = append([]byte{byte(rg.End >> 8), byte(rg.End)}, k...)
					}
					c.Ops = append(c.Ops, fmt.Sprintf("owns %d %d %s", rg.Start, rg.End, lib.Hex(pk)))
				case 7:
					a, b := lib.Pick(r, ranges), lib.Pick(r, ranges)
					if r.Bool() {
						b = partitioning.KeyGroupRange{Start: r.Intn(kgc + 1), End: r.Intn(kgc + 2)}
					}
					c.Ops = append(c.Ops, fmt.Sprintf("%s %d %d %d %d", lib.Pick(r, []string{"overlaps", "contains"}), a.Start, a.End, b.Start, b.End))
				case 8:
					if r.Chance(1, 3) {
						// a live operator deployed twice with different operator counts (restart with another worker count)
						n1, n2 := r.Range(1, 6), r.Range(1, 6)
						k2 := lib.Pick(r, []int{kgc, kgc, 4, 16, 256})
						c.Ops = append(c.Ops, fmt.Sprintf("redeploy %d %d %d %d %d %s", k2, n1, r.Intn(n1), n2, r.Intn(n2), hk))
					}
					if r.Chance(1, 4) {
						c.Ops = append(c.Ops, c05GenDeploy(r, lib.Pick(r, []int{kgc, kgc, 2, 3, 256}), hk))
					}
					c.Ops = append(c.Ops, fmt.Sprintf("subjkey %d %s", kgc, hk))
					if n <= 64 {
						c.Ops = append(c.Ops, fmt.Sprintf("ownsroute %d %d %s", kgc, n, hk))
					}
					c.Ops = append(c.Ops, fmt.Sprintf("partition %d %d", kgc, n))
				}
			}
			if kgc%n != 0 || n > kgc {
				c.Tags = append(c.Tags, "uneven")
			}
			return c
		},
		Impl: func(c lib.Case) []string {
			out := make([]string, 0, len(c.Ops))
			// one long-lived store per key-group count and ONE subject-key buffer per case, overwritten by every op: what the
			// store persists for a key is a function of that call's key bytes only, whatever an earlier call was given in the
			// same backing array (seeded C05-9: a last-key cache that keeps the caller's slice)
			stores := map[int]*operator.KeyedStateStore{}
			storeOf := func(kgc int) *operator.KeyedStateStore {
				if stores[kgc] == nil {
					stores[kgc] = operator.NewKeyedStateStore(nil, partitioning.NewKeySpace(kgc, 1))
				}
				return stores[kgc]
			}
			tstores := map[int]*operator.TimerStore{}
			var kb []byte
			subj := func(k []byte) []byte { kb = append(kb[:0], k...); return kb }
			for _, op := range c.Ops {
				f := strings.Fields(op)
				at := func(i int) int { v, _ := strconv.Atoi(f[i]); return v }
				switch f[0] {
				case "ranges":
					rs := partitioning.NewKeySpace(at(1), at(2)).KeyGroupRanges()
					parts := make([]string, len(rs))
					for i, r := range rs {
						parts[i] = fmt.Sprintf("%d,%d", r.Start, r.End)
					}
					out = append(out, strings.Join(parts, ";"))
				case "hash":
					out = append(out, strconv.FormatUint(uint64(murmur.Hash(lib.UnHex(f[1]), at(2))), 10))
				case "kg":
					out = append(out, strconv.Itoa(int(partitioning.NewKeySpace(at(1), 1).KeyGroup(lib.UnHex(f[2])))))
				case "ri":
					out = append(out, strconv.Itoa(partitioning.NewKeySpace(at(1), at(2)).RangeIndex(lib.UnHex(f[3]))))
				case "route":
					out = append(out, routeOnce(at(1), at(2), lib.UnHex(f[3])))
				case "dbkey":
					out = append(out, lib.Hex(storeOf(at(1)).VerifEncodeDBKey(subj(lib.UnHex(f[2])), string(lib.UnHex(f[3])), lib.UnHex(f[4]))))
				case "subjkey":
					out = append(out, lib.Hex(storeOf(at(1)).VerifEncodeSubjectKey(subj(lib.UnHex(f[2])))))
				case "timerkey":
					if tstores[at(1)] == nil {
						tstores[at(1)] = operator.NewTimerStore(nil, partitioning.NewKeySpace(at(1), 1), partitioning.KeyGroupRange{Start: 0, End: 1}, 1024)
					}
					t, _ := strconv.ParseUint(f[3], 10, 64)
					out = append(out, lib.Hex(tstores[at(1)].VerifEncodeTimerKey(subj(lib.UnHex(f[2])), time.Unix(0, int64(t)))))
				case "redeploy":
					out = append(out, c05Redeploy(at(1), at(2), at(3), at(4), at(5), lib.UnHex(f[6])))
				case "deploy":
					var keys [][]byte
					for _, h := range strings.Split(f[4], ",") {
						keys = append(keys, lib.UnHex(h))
					}
					out = append(out, c05Deploy(at(1), at(2), strings.Split(f[3], ","), keys))
				case "hashvec":
					out = append(out, strconv.FormatUint(uint64(murmur.Hash(lib.UnHex(f[1]), at(2))), 10))
				case "partition":
					out = append(out, checkPartition(at(1), at(2)))
				case "fanout":
					var keys [][]byte
					for _, h := range strings.Split(f[3], ",") {
						keys = append(keys, lib.UnHex(h))
					}
					out = append(out, fanout(at(1), at(2), keys))
				case "ownsroute":
					out = append(out, checkOwnsRoute(at(1), at(2), lib.UnHex(f[3])))
				case "owns":
					p := operator.VerifNewOperatorPartition(partitioning.KeyGroupRange{Start: at(1), End: at(2)})
					out = append(out, strconv.FormatBool(p.OwnsKey(lib.UnHex(f[3]))))
				case "overlaps":
					out = append(out, strconv.FormatBool(partitioning.KeyGroupRange{Start: at(1), End: at(2)}.Overlaps(partitioning.KeyGroupRange{Start: at(3), End: at(4)})))
				case "contains":
					out = append(out, strconv.FormatBool(partitioning.KeyGroupRange{Start: at(1), End: at(2)}.Contains(partitioning.KeyGroupRange{Start: at(3), End: at(4)})))
				default:
					out = append(out, "bad-op")
				}
			}
			return out
		},
		Nontrivial: func(c lib.Case, _ []string) bool {
			for _, t := range c.Tags {
				if t == "uneven" || t == "grid" || t == "boundary" || t == "deploy" {
					return true
				}
			}
			return false
		},
	}
}

// checkPartition evaluates the statements of C05.ranges_partition / ranges_balanced / keyGroups_partition /
// ranges_overlaps on the real ranges and the real range predicates.
func checkPartition(kgc, n int) string {
	rs := partitioning.NewKeySpace(kgc, n).KeyGroupRanges()
	if len(rs) != n {
		return fmt.Sprintf("len %d", len(rs))
	}
	pos, minS, maxS := 0, 1<<30, -1
	for i, r := range rs {
		if r.Start != pos || r.End < r.Start {
			return fmt.Sprintf("gap-or-overlap at range %d: %v", i, r)
		}
		pos = r.End
		minS, maxS = min(minS, r.Size()), max(maxS, r.Size())
	}
	if pos != kgc {
		return fmt.Sprintf("covers %d of %d", pos, kgc)
	}
	if maxS-minS > 1 {
		return fmt.Sprintf("unbalanced %d..%d", minS, maxS)
	}
	// C05.keyGroups_partition: KeyGroups() of the ranges in order enumerate 0..kgc-1
	next := 0
	for i, r := range rs {
		for _, g := range r.KeyGroups() {
			if int(g) != next {
				return fmt.Sprintf("KeyGroups of range %d yields %d, expected %d", i, g, next)
			}
			next++
		}
	}
	if next != kgc {
		return fmt.Sprintf("KeyGroups enumerate %d of %d", next, kgc)
	}
	// C05.ranges_overlaps / ranges_disjoint with the code's own Overlaps: true exactly for a non-empty range with itself
	if n <= 320 {
		for i, a := range rs {
			for j, b := range rs {
				if a.Overlaps(b) != (i == j && a.Size() > 0) {
					return fmt.Sprintf("Overlaps(range %d %v, range %d %v) = %v", i, a, j, b, a.Overlaps(b))
				}
			}
		}
	}
	return "ok"
}

// checkOwnsRoute evaluates C05.owns_encoded / rangeIndex_unique on the real code: exactly one range owns what is
// persisted for the key, and it is the range the router delivers the key to.
func checkOwnsRoute(kgc, n int, key []byte) string {
	ks := partitioning.NewKeySpace(kgc, n)
	st := operator.NewKeyedStateStore(nil, ks)
	ts := operator.NewTimerStore(nil, ks, partitioning.KeyGroupRange{Start: 0, End: 1}, 1024)
	dbk := st.VerifEncodeDBKey(key, "ns", []byte{7})
	tk := ts.VerifEncodeTimerKey(key, time.Unix(0, 123456789))
	routed := routeOnce(kgc, n, key)
	owners := []string{}
	for i, r := range ks.KeyGroupRanges() {
		p := operator.VerifNewOperatorPartition(r)
		a, b := p.OwnsKey(dbk), p.OwnsKey(tk)
		if a != b {
			return fmt.Sprintf("state/timer ownership differ at range %d", i)
		}
		if a {
			owners = append(owners, strconv.Itoa(i))
		}
		if r.IncludesKeyGroup(ks.KeyGroup(key)) != a {
			return fmt.Sprintf("range %d includes group but does not own key (or vice versa)", i)
		}
	}
	if len(owners) != 1 || owners[0] != routed || strconv.Itoa(ks.RangeIndex(key)) != routed {
		return fmt.Sprintf("owners=%v routed=%s rangeIndex=%d", owners, routed, ks.RangeIndex(key))
	}
	return "ok"
}

// refRanges is the generator's own (closed form) range computation, so that generators never call the code under test.
func refRanges(kgc, n int) []partitioning.KeyGroupRange {
	rs := make([]partitioning.KeyGroupRange, n)
	st := func(i int) int { return i*(kgc/n) + min(i, kgc%n) }
	for i := range rs {
		rs[i] = partitioning.KeyGroupRange{Start: st(i), End: st(i + 1)}
	}
	return rs
}

var c05Seq int

// c05Redeploy deploys ONE real operator process twice (as operator i1 of n1, then as operator i2 of n2, same key
// group count) and reports after each deployment its own range, the group it computes for the key and the group it
// would persist the key under.
func c05Redeploy(kgc, n1, i1, n2, i2 int, key []byte) string {
	slog.SetDefault(slog.New(slog.NewTextHandler(io.Discard, nil)))
	c05Seq++
	op := operator.NewOperator(operator.NewOperatorParams{
		ID: "me", Job: &proto.NoopJob{},
		NeighborOperatorFactory: func(string, *jobpb.NodeIdentity) proto.Operator { return &proto.UnimplementedOperator{} },
	})
	var parts []string
	for round, cfg := range [][2]int{{n1, i1}, {n2, i2}} {
		ids := make([]*jobpb.NodeIdentity, cfg[0])
		for j := range ids {
			ids[j] = &jobpb.NodeIdentity{Id: fmt.Sprintf("other%d", j), Host: "h"}
		}
		ids[cfg[1]] = &jobpb.NodeIdentity{Id: "me", Host: "h"}
		err := op.HandleDeploy(context.Background(), &workerpb.DeployOperatorRequest{
			Operators: ids, SourceRunnerIds: []string{"s0"}, KeyGroupCount: int32(kgc),
			StorageLocation: fmt.Sprintf("memory:///c05-%d-%d", c05Seq, round),
		}, &embedded.RecordingSink{})
		if err != nil {
			return "deploy-error " + strings.ReplaceAll(err.Error(), " ", "_")
		}
		own, all, rg, sg := op.VerifKeyLayout(key)
		parts = append(parts, fmt.Sprintf("%d,%d/%d/%d/%d", own.Start, own.End, len(all), rg, sg))
	}
	return strings.Join(parts, ";")
}

// ===== deployment level (registry → Assembly.Deploy → HandleDeploy on both sides), reference vectors =====

// c05Vectors: MurmurHash3 x86_32 reference vectors {input hex, seed, expected}; the same list as
// C05.murmur_vectors / murmur_vectors_long (published vectors + the repository's own test values, every one
// re-computed with the independent transcription of the reference in c05_murmur_vectors.py).
var c05Vectors = [][3]string{
	{"-", "0", "0"}, {"-", "1", "1364076727"}, {"-", "4294967295", "2180083513"},
	{"68656c6c6f", "0", "613153351"}, {"ffffffff", "0", "1982413648"}, {"21436587", "0", "4116402539"},
	{"21436587", "1350757870", "593689054"}, {"214365", "0", "2118813236"}, {"2143", "0", "2700587130"}, {"21", "0", "1919294708"},
	{"00000000", "0", "593689054"}, {"000000", "0", "2247144487"}, {"0000", "0", "821347078"}, {"00", "0", "1364076727"},
	{"61616161", "2538058380", "1519878282"}, {"616263", "0", "3017643002"}, {"74657374", "0", "3127628307"},
	{"74657374", "2538058380", "1883996636"}, {"6131", "0", "882153338"}, {"313233343536", "0", "3210799800"},
	{"61626364656667", "0", "2285673222"},
	{"48656c6c6f2c20776f726c6421", "1234", "4210478515"}, {"48656c6c6f2c20776f726c6421", "2538058380", "612912314"},
	{"54686520717569636b2062726f776e20666f78206a756d7073206f76657220746865206c617a7920646f67", "0", "776992547"},
	{"54686520717569636b2062726f776e20666f78206a756d7073206f76657220746865206c617a7920646f67", "2538058380", "799549133"},
	{"6162636462636465636465666465666765666768666768696768696a68696a6b696a6b6c6a6b6c6d6b6c6d6e6c6d6e6f6d6e6f706e6f7071", "0", "4002569104"},
}

// ---- generator ---------------------------------------------------------------------------------------------------

var c05IDPool = []string{"op-1", "op-10", "op-2", "op-20", "a", "B", "b", "Z", "aa", "ab", "2Xy", "10", "9", "~", "é", "node_7", "zz", "0"}

// c05GenDeploy: `deploy <kgc> <taskCount> <registry steps> <keys>`; steps: o<id> / s<id> register an operator / a
// source runner, O<id> / S<id> deregister (ids hex). Pure.
func c05GenDeploy(r *lib.Rng, kgc int, firstKey string) string {
	tc := r.Range(1, 4)
	if r.Chance(1, 6) {
		tc = r.Range(5, 7)
	}
	pick := func(m int) []string {
		perm := make([]string, len(c05IDPool))
		copy(perm, c05IDPool)
		for i := len(perm) - 1; i > 0; i-- {
			j := r.Intn(i + 1)
			perm[i], perm[j] = perm[j], perm[i]
		}
		return perm[:m]
	}
	extra := func() int {
		if r.Chance(1, 12) {
			return -1 // not enough nodes
		}
		return r.Intn(3)
	}
	var steps []string
	add := func(reg, dereg string, n int) {
		ids := pick(max(n, 1))[:max(n, 0)]
		var mine []string
		for _, id := range ids {
			mine = append(mine, reg+lib.Hex([]byte(id)))
			if r.Chance(1, 5) { // registered again later (heartbeat re-registration)
				mine = append(mine, reg+lib.Hex([]byte(id)))
			}
		}
		if len(ids) > 0 && r.Chance(1, 5) { // one node leaves, and sometimes comes back
			id := lib.Pick(r, ids)
			mine = append(mine, dereg+lib.Hex([]byte(id)))
			if r.Bool() {
				mine = append(mine, reg+lib.Hex([]byte(id)))
			}
		}
		// shuffle registrations of this kind while keeping a deregistration after the first registration of its id
		for i := len(mine) - 1; i > 0; i-- {
			j := r.Intn(i + 1)
			if mine[i][:1] == reg && mine[j][:1] == reg {
				mine[i], mine[j] = mine[j], mine[i]
			}
		}
		steps = append(steps, mine...)
	}
	add("o", "O", tc+extra())
	add("s", "S", tc+extra())
	// interleave operators' and runners' steps (relative order within a kind is kept)
	var ops, srs []string
	for _, s := range steps {
		if s[0] == 'o' || s[0] == 'O' {
			ops = append(ops, s)
		} else {
			srs = append(srs, s)
		}
	}
	steps = steps[:0]
	for len(ops) > 0 || len(srs) > 0 {
		if len(srs) == 0 || (len(ops) > 0 && r.Bool()) {
			steps, ops = append(steps, ops[0]), ops[1:]
		} else {
			steps, srs = append(steps, srs[0]), srs[1:]
		}
	}
	if len(steps) == 0 {
		steps = []string{"o61"}
	}
	keys := []string{firstKey}
	for m := r.Range(2, 5); m > 0; m-- {
		keys = append(keys, lib.Hex(c05Key(r)))
	}
	return fmt.Sprintf("deploy %d %d %s %s", kgc, tc, strings.Join(steps, ","), strings.Join(keys, ","))
}

// ---- real-code side ------------------------------------------------------------------------------------------------

// c05Rec collects what the fake workers are sent.
type c05Rec struct {
	mu     sync.Mutex
	opReqs map[string][]*workerpb.DeployOperatorRequest
	srReqs map[string][]*workerpb.DeploySourceRunnerRequest
}

type c05FakeOp struct {
	proto.UnimplementedOperator
	id  string
	rec *c05Rec
}

func (o *c05FakeOp) ID() string   { return o.id }
func (o *c05FakeOp) Host() string { return "h-" + o.id }
func (o *c05FakeOp) Deploy(ctx context.Context, req *workerpb.DeployOperatorRequest) error {
	o.rec.mu.Lock()
	defer o.rec.mu.Unlock()
	o.rec.opReqs[o.id] = append(o.rec.opReqs[o.id], req)
	return nil
}

type c05FakeSR struct {
	proto.UnimplementedSourceRunner
	id  string
	rec *c05Rec
}

func (s *c05FakeSR) ID() string   { return s.id }
func (s *c05FakeSR) Host() string { return "h-" + s.id }
func (s *c05FakeSR) Deploy(ctx context.Context, req *workerpb.DeploySourceRunnerRequest) error {
	s.rec.mu.Lock()
	defer s.rec.mu.Unlock()
	s.rec.srReqs[s.id] = append(s.rec.srReqs[s.id], req)
	return nil
}

// c05Sink is the operator client a real source runner is given for a node identity: it reports the identity's id
// for every keyed event it is handed.
type c05Sink struct {
	proto.UnimplementedOperator
	id  string
	got chan string
}

func (o *c05Sink) ID() string { return o.id }
func (o *c05Sink) HandleEventBatch(ctx context.Context, batch []*workerpb.Event) error {
	for _, ev := range batch {
		if ev.GetKeyedEvent() != nil {
			o.got <- o.id
		}
	}
	return nil
}

// c05Runs: canonical text of a list of numbers, maximal runs of consecutive values as first+length (as the driver's showRuns).
func c05Runs(l []int) string {
	var parts []string
	for i := 0; i < len(l); {
		j := i + 1
		for j < len(l) && l[j] == l[j-1]+1 {
			j++
		}
		parts = append(parts, fmt.Sprintf("%d+%d", l[i], j-i))
		i = j
	}
	return strings.Join(parts, ",")
}

func c05IDs(ids []string) string {
	h := make([]string, len(ids))
	for i, id := range ids {
		h[i] = lib.Hex([]byte(id))
	}
	return strings.Join(h, ",")
}

func c05NodeIDs(ns []*jobpb.NodeIdentity) string {
	ids := make([]string, len(ns))
	for i, n := range ns {
		ids[i] = n.GetId()
	}
	return c05IDs(ids)
}

// c05Guard runs f with a recover and a timeout (the real code must neither take the harness down nor hang it).
func c05Guard(f func() string) string {
	done := make(chan string, 1)
	go func() {
		defer func() {
			if r := recover(); r != nil {
				done <- "panic"
			}
		}()
		done <- f()
	}()
	select {
	case s := <-done:
		return s
	case <-time.After(10 * time.Second):
		return "timeout"
	}
}

var c05DeploySeq struct {
	sync.Mutex
	n int
}

// c05Deploy: registrations → the real jobs.Registry.NewAssembly → the real Assembly.Deploy against recording fake
// workers; then every recorded DeploySourceRunnerRequest is handled by a real SourceRunner and every recorded
// DeployOperatorRequest by a real Operator carrying the receiver's id; every key is routed by each real runner and
// offered to each real operator's ownership test (state entry and timer as that operator would encode them).
func c05Deploy(kgc, tc int, steps []string, keys [][]byte) string {
	slog.SetDefault(slog.New(slog.NewTextHandler(io.Discard, nil)))
	c05DeploySeq.Lock()
	c05DeploySeq.n++
	seq := c05DeploySeq.n
	c05DeploySeq.Unlock()

	rec := &c05Rec{opReqs: map[string][]*workerpb.DeployOperatorRequest{}, srReqs: map[string][]*workerpb.DeploySourceRunnerRequest{}}
	reg := jobs.NewRegistry(tc, jobs.NewLivenessTracker(clocks.NewFrozenClock(), time.Hour))
	for _, st := range steps {
		if len(st) < 1 {
			continue
		}
		id := string(lib.UnHex(st[1:]))
		switch st[0] {
		case 'o':
			reg.RegisterOperator(&c05FakeOp{id: id, rec: rec})
		case 's':
			reg.RegisterSourceRunner(&c05FakeSR{id: id, rec: rec})
		case 'O':
			reg.DeregisterOperator(&jobpb.NodeIdentity{Id: id})
		case 'S':
			reg.DeregisterSourceRunner(&jobpb.NodeIdentity{Id: id})
		}
	}
	asm, err := reg.NewAssembly()
	if err != nil {
		if errors.Is(err, jobs.ErrNotEnoughResources) {
			return "noassembly"
		}
		return "assembly-error"
	}
	cfg := &config.Config{
		WorkerCount: tc, KeyGroupCount: kgc, WorkingStorageLocation: fmt.Sprintf("memory:///c05d-%d", seq),
		Sources: []connectors.SourceConfig{embedded.SourceConfig{SplitCount: 1, BatchSize: 1}},
	}
	if r := c05Guard(func() string {
		if err := asm.Deploy(cfg, &snapshotpb.JobCheckpoint{}); err != nil {
			return "deploy-error"
		}
		return ""
	}); r != "" {
		return r
	}
	opIDs, srIDs := asm.OperatorIDs(), asm.SourceRunnerIDs()
	rec.mu.Lock()
	defer rec.mu.Unlock()

	ctx, cancel := context.WithCancel(context.Background())
	defer cancel()

	// operators: what each was sent, and the real Operator built from it
	realOps := make([]*operator.Operator, len(opIDs))
	opParts := make([]string, len(opIDs))
	for i, id := range opIDs {
		reqs := rec.opReqs[id]
		if len(reqs) != 1 {
			opParts[i] = fmt.Sprintf("%s=x%d", lib.Hex([]byte(id)), len(reqs))
			continue
		}
		req := reqs[0]
		layout := c05Guard(func() string {
			op := operator.NewOperator(operator.NewOperatorParams{
				ID: id, Job: &proto.NoopJob{},
				NeighborOperatorFactory: func(string, *jobpb.NodeIdentity) proto.Operator { return &proto.UnimplementedOperator{} },
			})
			if err := op.HandleDeploy(ctx, req, &embedded.RecordingSink{}); err != nil {
				return "deploy-error"
			}
			own, all, _, _ := op.VerifKeyLayout(nil)
			// the key groups the operator's per-key-group timer queues load from and persist under
			queues, _ := op.VerifTimerQueuesC05(nil, time.Unix(0, 0))
			realOps[i] = op
			return fmt.Sprintf("%d-%d/%d/q%s", own.Start, own.End, len(all), c05Runs(queues))
		})
		opParts[i] = fmt.Sprintf("%s=%d:%s:%s:%s", lib.Hex([]byte(id)), req.KeyGroupCount, c05NodeIDs(req.Operators), c05IDs(req.SourceRunnerIds), layout)
	}

	// source runners: what each was sent, and the real SourceRunner built from it
	type realSR struct {
		sr  *sourcerunner.SourceRunner
		got chan string
	}
	realSRs := make([]*realSR, len(srIDs))
	srParts := make([]string, len(srIDs))
	for i, id := range srIDs {
		reqs := rec.srReqs[id]
		if len(reqs) != 1 {
			srParts[i] = fmt.Sprintf("%s=x%d", lib.Hex([]byte(id)), len(reqs))
			continue
		}
		req := reqs[0]
		srParts[i] = fmt.Sprintf("%s=%d:%s", lib.Hex([]byte(id)), req.KeyGroupCount, c05NodeIDs(req.Operators))
		got := make(chan string, 8)
		res := c05Guard(func() string {
			sr := sourcerunner.New(sourcerunner.NewParams{
				Host: "h", Job: proto.NoopJob{},
				OperatorFactory: func(senderID string, node *jobpb.NodeIdentity) proto.Operator {
					return &c05Sink{id: node.GetId(), got: got}
				},
				EventBatching: batching.EventBatcherParams{MaxSize: 1},
			})
			go sr.Start(ctx)
			if err := sr.HandleDeploy(ctx, req); err != nil {
				return "deploy-error"
			}
			sr.VerifSetWatermarkTicks(make(chan time.Time)) // no watermark traffic while keys are routed by hand
			realSRs[i] = &realSR{sr: sr, got: got}
			return ""
		})
		if res != "" {
			srParts[i] += ":" + res
		}
	}

	keyParts := make([]string, len(keys))
	for ki, k := range keys {
		tgts := make([]string, len(realSRs))
		for i, rs := range realSRs {
			if rs == nil {
				tgts[i] = "panic"
				continue
			}
			tgts[i] = c05Guard(func() string {
				rs.sr.VerifRouteC05(k, &workerpb.Event{Event: &workerpb.Event_KeyedEvent{KeyedEvent: &handlerpb.KeyedEvent{Key: k}}})
				select {
				case id := <-rs.got:
					return lib.Hex([]byte(id))
				case <-time.After(5 * time.Second):
					return "timeout"
				}
			})
		}
		var ownDB, ownTimer, queues []string
		for i, op := range realOps {
			if op == nil {
				continue
			}
			r := c05Guard(func() string {
				_, _, a, b := op.VerifOwnsC05(k, "ns", []byte{7}, time.Unix(0, 123456789))
				q := ""
				if b { // the queue the owned timer is pushed to, and the key group that queue serves
					groups, idx := op.VerifTimerQueuesC05(k, time.Unix(0, 123456789))
					q = fmt.Sprintf(" %d:none", idx)
					if idx >= 0 && idx < len(groups) {
						q = fmt.Sprintf(" %d:%d", idx, groups[idx])
					}
				}
				return fmt.Sprintf("%v%v%s", a, b, q)
			})
			f := strings.Fields(r)
			if len(f) == 2 {
				queues = append(queues, f[1])
			}
			switch f[0] {
			case "truetrue":
				ownDB, ownTimer = append(ownDB, opIDs[i]), append(ownTimer, opIDs[i])
			case "truefalse":
				ownDB = append(ownDB, opIDs[i])
			case "falsetrue":
				ownTimer = append(ownTimer, opIDs[i])
			case "falsefalse":
			default:
				ownDB = append(ownDB, "!"+opIDs[i])
			}
		}
		keyParts[ki] = fmt.Sprintf("%s=%s/%s/%s/%s", lib.Hex(k), strings.Join(tgts, ","), c05IDs(ownDB), c05IDs(ownTimer), strings.Join(queues, ","))
	}
	return fmt.Sprintf("A%s/%s|O%s|S%s|K%s", c05IDs(opIDs), c05IDs(srIDs), strings.Join(opParts, ";"), strings.Join(srParts, ";"), strings.Join(keyParts, ";"))
}
