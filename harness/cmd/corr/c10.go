package main

import (
	"bytes"
	"encoding/binary"
	"fmt"
	"io"
	"log/slog"
	"math/big"
	"sort"
	"strconv"
	"strings"
	"time"

	"google.golang.org/protobuf/types/known/timestamppb"
	"reduction.dev/reduction/dkv"
	"reduction.dev/reduction/dkv/recovery"
	"reduction.dev/reduction/dkv/storage"
	"reduction.dev/reduction/partitioning"
	"reduction.dev/reduction/proto/workerpb"
	"reduction.dev/reduction/workers/operator"
	"verif/harness/lib"
)

func init() { register("C10", propC10) }

var bigE9 = big.NewInt(1_000_000_000)

// timeOfNs builds a time.Time from decimal nanoseconds relative to the Unix epoch (any magnitude time.Time can hold).
func timeOfNs(s string) time.Time {
	n, ok := new(big.Int).SetString(s, 10)
	if !ok {
		panic("bad time " + s)
	}
	sec, nsec := new(big.Int).DivMod(n, bigE9, new(big.Int)) // Euclidean: 0 <= nsec < 1e9
	return time.Unix(sec.Int64(), nsec.Int64())
}

// nsOfTime is the inverse of timeOfNs.
func nsOfTime(t time.Time) string {
	n := new(big.Int).Mul(big.NewInt(t.Unix()), bigE9)
	n.Add(n, big.NewInt(int64(t.Nanosecond())))
	return n.String()
}

// c10InRange: timestamps an int64 of nanoseconds can hold. time.Time.UnixNano is undefined outside ("a date before the
// year 1678 or after 2262"), so such timers are outside the property; neither side registers them.
func c10InRange(s string) bool {
	n, ok := new(big.Int).SetString(s, 10)
	return ok && n.IsInt64()
}

type firedTimer struct {
	key []byte
	t   time.Time
}

// canonFired prints fired timers ordered by timestamp, ties by key bytes; a raw order that is not
// non-decreasing in the timestamp is reported as such (it can never equal a model line).
func canonFired(fs []firedTimer) string {
	if len(fs) == 0 {
		return "-"
	}
	prefix := ""
	for i := 1; i < len(fs); i++ {
		if fs[i].t.Before(fs[i-1].t) {
			prefix = "UNORDERED " // which timers, in canonical order, follows; ties between key groups have no fixed raw order
		}
	}
	c := append([]firedTimer(nil), fs...)
	sort.SliceStable(c, func(i, j int) bool {
		if !c[i].t.Equal(c[j].t) {
			return c[i].t.Before(c[j].t)
		}
		return bytes.Compare(c[i].key, c[j].key) < 0
	})
	parts := make([]string, len(c))
	for j, f := range c {
		parts[j] = nsOfTime(f.t) + ":" + lib.Hex(f.key)
	}
	return prefix + strings.Join(parts, ",")
}

type c10Env struct {
	fs      storage.FileSystem
	db      *dkv.DB
	ks      *partitioning.KeySpace
	rng     partitioning.KeyGroupRange
	cache   uint64
	ids     []string
	store   *operator.TimerStore
	reg     *operator.TimerRegistry
	handle  *recovery.CheckpointHandle
	nextCID uint64
	memTbl  uint64
}

// c10Open opens the real DKV. memTable = 0 keeps the default 64 MB memtables (nothing is ever flushed); a few hundred
// bytes make every handful of timer writes seal a memtable, so timers and their tombstones spread over memtables,
// level-0 tables and compacted levels while caches reload and checkpoints are taken (flushes and compactions run as
// the DKV's own background tasks).
func c10Open(fs storage.FileSystem, handles []recovery.CheckpointHandle, memTable uint64) *dkv.DB {
	return dkv.Open(dkv.DBOptions{FileSystem: fs, MemTableSize: memTable, TargetFileSize: 4 * memTable,
		Logger: slog.New(slog.NewTextHandler(io.Discard, nil))}, handles)
}

func newC10Env(hdr []string) *c10Env {
	at := func(i int) int { v, _ := strconv.Atoi(hdr[i]); return v }
	e := &c10Env{fs: storage.NewMemoryFilesystem(), nextCID: 1}
	kgc, start, stop, cache, runners := at(2), at(3), at(4), at(5), at(6)
	e.ks = partitioning.NewKeySpace(kgc, 1)
	e.rng = partitioning.KeyGroupRange{Start: start, End: stop}
	e.cache = uint64(cache)
	for i := 0; i < runners; i++ {
		e.ids = append(e.ids, fmt.Sprintf("sr%d", i))
	}
	if len(hdr) > 7 {
		e.memTbl = uint64(at(7))
	}
	e.db = c10Open(e.fs, nil, e.memTbl)
	e.fresh()
	return e
}

func (e *c10Env) fresh() {
	e.store = operator.NewTimerStore(e.db, e.ks, e.rng, e.cache)
	e.reg = operator.NewTimerRegistry(e.store, e.ids)
}

func (e *c10Env) owns(key []byte) bool { return e.rng.IncludesKeyGroup(e.ks.KeyGroup(key)) }

func (e *c10Env) dbCount() int {
	n := 0
	for kg := e.rng.Start; kg < e.rng.End; kg++ {
		prefix := make([]byte, 3)
		binary.BigEndian.PutUint16(prefix, uint16(kg))
		prefix[2] = 0x01
		var err error
		for range e.db.ScanPrefix(prefix, &err) {
			n++
		}
		if err != nil {
			panic(err)
		}
	}
	return n
}

func (e *c10Env) step(op string) string {
	f := strings.Fields(op)
	switch f[0] {
	case "set":
		if !c10InRange(f[2]) {
			return "outofrange"
		}
		key := lib.UnHex(f[1])
		if !e.owns(key) {
			return "notowned"
		}
		e.reg.SetTimer(key, timeOfNs(f[2]))
		return "ok"
	case "put":
		if !c10InRange(f[2]) {
			return "outofrange"
		}
		key := lib.UnHex(f[1])
		if !e.owns(key) {
			return "notowned"
		}
		e.store.Put(key, timeOfNs(f[2]))
		return "ok"
	case "adv":
		var fired []firedTimer
		for k, t := range e.reg.AdvanceWatermark("sr"+f[1], &workerpb.Watermark{Timestamp: timestamppb.New(timeOfNs(f[2]))}) {
			fired = append(fired, firedTimer{append([]byte(nil), k...), t})
			if len(fired) > 100000 {
				return "runaway"
			}
		}
		return "c=" + nsOfTime(e.reg.VerifWatermark()) + " f=" + canonFired(fired)
	case "advk":
		// the consumer stops after k timers (Operator.handleWatermark returns from inside the loop when a batch fails),
		// then the same report is drained: every due timer is handed out exactly once over the two calls (seeded C10-9)
		k, _ := strconv.Atoi(f[3])
		var fired []firedTimer
		for key, t := range e.reg.AdvanceWatermark("sr"+f[1], &workerpb.Watermark{Timestamp: timestamppb.New(timeOfNs(f[2]))}) {
			fired = append(fired, firedTimer{append([]byte(nil), key...), t})
			if len(fired) >= k {
				break
			}
		}
		for key, t := range e.reg.AdvanceWatermark("sr"+f[1], &workerpb.Watermark{Timestamp: timestamppb.New(timeOfNs(f[2]))}) {
			fired = append(fired, firedTimer{append([]byte(nil), key...), t})
			if len(fired) > 100000 {
				return "runaway"
			}
		}
		return "c=" + nsOfTime(e.reg.VerifWatermark()) + " f=" + canonFired(fired)
	case "earliest":
		t, ok := e.store.GetEarliest()
		if !ok {
			return "none"
		}
		return "t=" + nsOfTime(t.Timestamp)
	case "dbcount":
		return strconv.Itoa(e.dbCount())
	case "ckpt":
		h, err := e.db.Checkpoint(e.nextCID)()
		e.nextCID++
		if err != nil {
			return "err"
		}
		e.handle = &h
		return "ok"
	case "restore":
		if e.handle == nil {
			return "nockpt"
		}
		// the old instance is abandoned (crash); a new DB is opened from the checkpoint on the same file system
		e.db = c10Open(e.fs, []recovery.CheckpointHandle{*e.handle}, e.memTbl)
		e.fresh()
		return "ok"
	}
	return "bad-op"
}

func c10Key(r *lib.Rng, pool int) string {
	i := r.Intn(pool)
	keys := []string{"6b", "61", "62", "6162", "00", "ff01", "6b31", "6b32", "7a7a7a", "01", "6161", "63"}
	return keys[i%len(keys)]
}

func propC10() *lib.Prop {
	d11 := lib.Case{Header: "M C10 1 0 1 30 1", Tags: []string{"fixed", "smallcache"},
		Ops: []string{"set 6b 1", "set 6b 2", "set 6b 5", "adv 0 1", "set 6b 9", "dbcount", "adv 0 100", "adv 0 200", "dbcount"}}
	d11b := lib.Case{Header: "M C10 1 0 1 26 1", Tags: []string{"fixed", "smallcache"},
		Ops: []string{"set 6b 1", "set 6b 2", "set 6b 3", "set 6b 4", "set 6b 5", "set 6b 6", "ckpt", "restore", "dbcount", "adv 0 3", "adv 0 10", "dbcount"}}
	d10 := lib.Case{Header: "M C10 1 0 1 40 1", Tags: []string{"fixed", "smallcache"},
		Ops: []string{"set 6b 3", "set 6b 3", "set 6b 3", "set 6b 3", "set 6b 4", "set 6b 1", "adv 0 2", "set 6b 3", "adv 0 3", "adv 0 9", "dbcount"}}
	zero := lib.Case{Header: "M C10 2 0 2 0 2", Tags: []string{"fixed", "smallcache"},
		Ops: []string{"set 6b 4", "set 61 2", "set 62 3", "set 6b 1", "earliest", "adv 0 9", "adv 1 2", "earliest", "adv 1 9", "dbcount"}}
	return &lib.Prop{
		ID:   "C10",
		Corr: "Model/Timers.lean (Cache, KGPQ, Store, Registry) ↔ operator.TimerRegistry/TimerStore/KeyGroupPriorityQueue, ds.SortedCache, binu time codec over a real dkv.DB",
		Rule: "cases = sequences of SetTimer/AdvanceWatermark/GetEarliest/Put/checkpoint/restore on the real TimerRegistry over a real in-memory DKV " +
			"(two thirds of the cases with memtables of 120-900 bytes, so timers and their tombstones live in memtables, level-0 tables and compacted levels while caches reload and checkpoints are taken; the rest with the default 64 MB); fired timers are compared per advance " +
			"(canonical order: timestamp, ties by key; a raw order that is not non-decreasing is a mismatch); non-trivial = per-key-group cache of at most 3 entries (or 0 bytes) " +
			"with at least 6 registrations and an advance that fired at least 2 timers, or a restore followed by a firing; " +
			"every 6th case also registers timers before 1970 (open finding D51: KNOWN-FINDING lines come from these and from the fixed witness only); " +
			"every 8th case (and two fixed ones) runs the real Operator (HandleEvent: keyed events whose handler response registers timers, watermark messages of 1-4 runners, SourceComplete of a runner, HandleDeploy again) and compares every ProcessEventBatchRequest (TimerExpired events in order), non-trivial there = a TimerExpired reached the handler",
		NumCases: func(tier string) int {
			if tier == "thorough" {
				return 15000
			}
			return 1500
		},
		Fixed: func(tier string) []lib.Case {
			// operator mode (header "M C10 op ..."): the timers the real Operator hands to the handler, over histories with
			// several runners, source completions and redeployments (shared with C11's operator mode)
			// D51 (open): a timer before 1970 sorts after every later timer (keys carry uint64(UnixNano))
			d51 := lib.Case{Header: "M C10 1 0 1 1048576 1", Tags: []string{"fixed", "preepoch"},
				Ops: []string{"adv 0 -1000000000", "set 6b -5", "set 6b 4102444800000000000", "earliest", "adv 0 10000000000", "dbcount", "adv 0 4102444800000000001", "dbcount"}}
			// tiny memtables (150 B ~ 3 timer keys with overhead): the fired timers' deletes are in memory over flushed
			// puts when the checkpoint is taken; after the restore they must not fire again, the pending ones must
			sst := lib.Case{Header: "M C10 1 0 1 26 1 150", Tags: []string{"fixed", "smallcache", "sst"},
				Ops: []string{"set 6b 1", "set 6b 2", "set 6b 3", "set 6b 4", "set 6b 5", "set 6b 6", "set 6b 7", "set 6b 8", "adv 0 3", "ckpt", "adv 0 5", "restore", "dbcount", "adv 0 4", "adv 0 100", "dbcount"}}
			return append([]lib.Case{d11, d11b, d10, zero, d51, sst}, c11CompletionCases("M C10 op")...)
		},
		Gen: func(r *lib.Rng, tier string, i int) lib.Case {
			if i%8 == 7 {
				return c11OperatorCase(r, "M C10 op")
			}
			kgc := lib.Pick(r, []int{1, 1, 2, 3, 4, 8})
			start, stop := 0, kgc
			if kgc > 1 && r.Chance(1, 4) {
				start = r.Intn(kgc)
				stop = r.Range(start+1, kgc)
			}
			size := stop - start
			pool := r.Range(1, 12)
			// per-partition capacity in entries of ~12-14 bytes: 0 bytes, 1..5 entries, or larger than any case
			perPart := lib.Pick(r, []int{0, 1, 13, 14, 26, 27, 30, 40, 45, 60, 70, 1 << 20})
			cache := perPart*size + r.Intn(size)
			runners := r.Range(1, 3)
			memTbl := lib.Pick(r, []int{0, 0, 120, 200, 400, 900})
			c := lib.Case{Header: fmt.Sprintf("M C10 %d %d %d %d %d %d", kgc, start, stop, cache, runners, memTbl)}
			if memTbl > 0 {
				c.Tags = append(c.Tags, "sst")
			}
			if perPart <= 45 {
				c.Tags = append(c.Tags, "smallcache")
			}
			n := r.Range(10, 100)
			grid := r.Range(5, 40)
			scale := lib.Pick(r, []int64{1, 1, 1000, 1_000_000_000, 1 << 40})
			wms := make([]int64, runners)
			// every 6th case also registers timers before 1970 (finding D51: the code fires them late; the driver labels
			// exactly these deviations, and only while such a timer is stored or pending)
			preEpoch := i%6 == 5
			if preEpoch {
				c.Tags = append(c.Tags, "preepoch")
				// timers before 1970 are only accepted while the composite watermark is before 1970 (old data): every
				// runner first reports a watermark below all of them
				for ri := 0; ri < runners; ri++ {
					wms[ri] = -int64(grid+1) * scale
					c.Ops = append(c.Ops, fmt.Sprintf("adv %d %d", ri, wms[ri]))
				}
			}
			ts := func() int64 {
				t := int64(r.Intn(grid)) * scale
				if preEpoch && r.Chance(1, 4) {
					t = -int64(r.Range(1, grid)) * scale
				}
				return t
			}
			haveCkpt, restored := false, false
			sets := 0
			for j := 0; j < n; j++ {
				switch x := r.Intn(100); {
				case x < 55:
					t := ts()
					key := c10Key(r, pool)
					reps := 1
					if r.Chance(1, 8) {
						reps = r.Range(2, 20)
					}
					for k := 0; k < reps; k++ {
						c.Ops = append(c.Ops, fmt.Sprintf("set %s %d", key, t))
					}
					sets++
				case x < 78:
					ri := r.Intn(runners)
					if r.Chance(1, 6) {
						wms[ri] = int64(r.Intn(grid)) * scale // arbitrary (possibly decreasing) report
					} else {
						wms[ri] += int64(r.Intn(grid/3+1)) * scale
					}
					if r.Chance(1, 4) {
						c.Ops = append(c.Ops, fmt.Sprintf("advk %d %d %d", ri, wms[ri], r.Range(1, 3)))
					} else {
						c.Ops = append(c.Ops, fmt.Sprintf("adv %d %d", ri, wms[ri]))
					}
				case x < 84:
					c.Ops = append(c.Ops, "earliest")
				case x < 89:
					c.Ops = append(c.Ops, "dbcount")
				case x < 93:
					c.Ops = append(c.Ops, fmt.Sprintf("put %s %d", c10Key(r, pool), ts()))
				case x < 97:
					c.Ops = append(c.Ops, "ckpt")
					haveCkpt = true
				default:
					if haveCkpt {
						c.Ops = append(c.Ops, "restore")
						if !restored {
							c.Tags = append(c.Tags, "restore")
							restored = true
						}
						for k := range wms {
							wms[k] = 0
						}
					}
				}
			}
			// drain: everything still pending fires, each exactly once
			for ri := 0; ri < runners; ri++ {
				c.Ops = append(c.Ops, fmt.Sprintf("adv %d %d", ri, int64(grid+1)*scale))
			}
			c.Ops = append(c.Ops, "dbcount", "earliest")
			if sets >= 6 {
				c.Tags = append(c.Tags, "manysets")
			}
			return c
		},
		Impl: func(c lib.Case) []string {
			if h := strings.Fields(c.Header); len(h) > 2 && h[2] == "op" {
				return c11RunOperatorOps(append([]string{"M", "C11"}, h[3:]...), c.Ops)
			}
			e := newC10Env(strings.Fields(c.Header))
			out := make([]string, 0, len(c.Ops))
			for _, op := range c.Ops {
				out = append(out, e.step(op))
				if e.memTbl > 0 {
					// let the DKV's background flush/compaction finish between operations: reads concurrent with an
					// in-flight flush are C07's subject (gated there); here the layout (memtables + tables + tombstones) matters
					if err := e.db.WaitOnTasks(); err != nil {
						out[len(out)-1] += " dkv-task-error"
					}
				}
			}
			return out
		},
		MObs: func(op string) bool { return strings.HasPrefix(op, "dbcount") },
		Nontrivial: func(c lib.Case, out []string) bool {
			small, many, restore := false, false, false
			for _, t := range c.Tags {
				if t == "operator" {
					for _, o := range out {
						if strings.Contains(o, "@") { // a TimerExpired reached the handler
							return true
						}
					}
					return false
				}
				small = small || t == "smallcache"
				many = many || t == "manysets" || t == "fixed"
				restore = restore || t == "restore"
			}
			multi, afterRestore, seenRestore := false, false, false
			for i, o := range out {
				if c.Ops[i] == "restore" && o == "ok" {
					seenRestore = true
				}
				if j := strings.Index(o, " f="); j >= 0 && o[j+3:] != "-" {
					if strings.Contains(o[j+3:], ",") {
						multi = true
					}
					if seenRestore {
						afterRestore = true
					}
				}
			}
			return (small && many && multi) || (restore && afterRestore)
		},
	}
}
