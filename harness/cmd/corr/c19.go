package main

import (
	"bytes"
	"encoding/binary"
	"io"
	"log/slog"
	"fmt"
	"iter"
	"slices"
	"sort"
	"strconv"
	"strings"

	"reduction.dev/reduction/dkv"
	"reduction.dev/reduction/dkv/kv"
	"reduction.dev/reduction/dkv/mergesort"
	"reduction.dev/reduction/dkv/sst"
	"reduction.dev/reduction/dkv/storage"
	"reduction.dev/reduction/dkv/ziptree"
	"reduction.dev/reduction/partitioning"
	"reduction.dev/reduction/util/ds"
	"reduction.dev/reduction/util/iteru"
	"reduction.dev/reduction/util/sliceu"
	"reduction.dev/reduction/workers/operator"
	"verif/harness/lib"
)

func init() { register("C19", propC19) }

// ---------- real-code side ----------

type c19HItem struct {
	prio, id, index int
}

type c19QItem struct{ prio, part, id int }

// c19Part is the in-memory partition handed to the real PartitionedPriorityQueue: a slice kept sorted by
// priority, new items after equal ones (the partition interface is the queue's environment, not the code under test).
type c19Part struct {
	items []c19QItem
	index int
}

func (p *c19Part) Peek() (c19QItem, bool) {
	if len(p.items) == 0 {
		return c19QItem{}, false
	}
	return p.items[0], true
}
func (p *c19Part) Pop() (c19QItem, bool) {
	if len(p.items) == 0 {
		return c19QItem{}, false
	}
	x := p.items[0]
	p.items = p.items[1:]
	return x, true
}
func (p *c19Part) Push(x c19QItem) {
	i := 0
	for i < len(p.items) && !(x.prio < p.items[i].prio) {
		i++
	}
	p.items = slices.Insert(p.items, i, x)
}
func (p *c19Part) IsEmpty() bool { return len(p.items) == 0 }
func (p *c19Part) Delete(x c19QItem) {
	if i := slices.Index(p.items, x); i >= 0 {
		p.items = slices.Delete(p.items, i, i+1)
	}
}
func (p *c19Part) AssignIndex(i int) { p.index = i }
func (p *c19Part) Index() int        { return p.index }

type c19KVEntry struct {
	key, val []byte
	seq      uint64
}

func (e *c19KVEntry) Key() []byte    { return e.key }
func (e *c19KVEntry) Value() []byte  { return e.val }
func (e *c19KVEntry) IsDelete() bool { return false }
func (e *c19KVEntry) SeqNum() uint64 { return e.seq }

type c19GEntry struct {
	key string
	seq int
	val string
}

func c19ParseRuns(s string) [][]c19GEntry {
	if s == "!" {
		return nil
	}
	var runs [][]c19GEntry
	for _, r := range strings.Split(s, "|") {
		run := []c19GEntry{}
		if r != "_" {
			for _, e := range strings.Split(r, ",") {
				f := strings.Split(e, ":")
				seq, _ := strconv.Atoi(f[1])
				run = append(run, c19GEntry{string(lib.UnHex(f[0])), seq, string(lib.UnHex(f[2]))})
			}
		}
		runs = append(runs, run)
	}
	return runs
}

func c19ShowEntries(es []c19GEntry) string {
	if len(es) == 0 {
		return "list"
	}
	parts := make([]string, len(es))
	for i, e := range es {
		parts[i] = fmt.Sprintf("%s:%d:%s", lib.Hex([]byte(e.key)), e.seq, lib.Hex([]byte(e.val)))
	}
	return "list " + strings.Join(parts, ",")
}

// c19Canon sorts every maximal block of adjacent equal keys by (seq, val): the order among equal keys is the
// heap's tie-breaking, not part of the property.
func c19Canon(es []c19GEntry) []c19GEntry {
	out := slices.Clone(es)
	for i := 0; i < len(out); {
		j := i
		for j < len(out) && out[j].key == out[i].key {
			j++
		}
		sort.SliceStable(out[i:j], func(a, b int) bool {
			x, y := out[i+a], out[i+b]
			if x.seq != y.seq {
				return x.seq < y.seq
			}
			return x.val < y.val
		})
		i = j
	}
	return out
}

func c19Nums(s string) []int {
	if s == "_" {
		return nil
	}
	var out []int
	for _, f := range strings.Split(s, ",") {
		n, _ := strconv.Atoi(f)
		out = append(out, n)
	}
	return out
}

func c19ShowInts(xs []int) string {
	if len(xs) == 0 {
		return "list"
	}
	parts := make([]string, len(xs))
	for i, x := range xs {
		parts[i] = strconv.Itoa(x)
	}
	return "list " + strings.Join(parts, ",")
}

func c19OptHex(b []byte, ok bool) string {
	if !ok {
		return "none"
	}
	return "val " + lib.Hex(b)
}

type c19State struct {
	zip    *ziptree.ZipTree
	heap   *ds.Heap[*c19HItem]
	hitems map[int]*c19HItem
	ppq    *ds.PartitionedPriorityQueue[c19QItem]
	parts  []*c19Part
	// production mode: the real queue over the timer store's partition type (cache + DKV backed)
	prod   *ds.PartitionedPriorityQueue[[]byte]
	pparts []*operator.KeyGroupPriorityQueue
	pdb    *dkv.DB
	cache  *ds.SortedCache
	sets   [4]*ds.Set[int]
	smap   *ds.SortedMap[int, int]
}

func c19NewState() *c19State {
	st := &c19State{zip: ziptree.New(), hitems: map[int]*c19HItem{}, cache: ds.NewSortedCache(0), smap: ds.NewSortedMap[int, int]()}
	st.heap = ds.NewHeap(func(a, b *c19HItem) int { return a.prio - b.prio }, 0)
	st.heap.SetIndexAssigner(func(x *c19HItem, i int) { x.index = i })
	for i := range st.sets {
		st.sets[i] = ds.NewSet[int](0)
	}
	st.newPPQ(0)
	return st
}

func (st *c19State) newPPQ(n int) {
	st.parts = make([]*c19Part, n)
	qp := make([]ds.QueuePartition[c19QItem], n)
	for i := range st.parts {
		st.parts[i] = &c19Part{index: -7}
		qp[i] = st.parts[i]
	}
	st.ppq = ds.NewPartitionedPriorityQueue(qp, func(a, b c19QItem) int { return a.prio - b.prio }, func(x c19QItem) int { return x.part })
}

// zipShape checks the binary-search-tree order and the zip-tree rank order on the real tree and prints its exact
// shape with ranks (the harness drives the ranks through ziptree.VerifRankSource, so the shape is deterministic).
func c19ZipShape(t *ziptree.ZipTree) string {
	d := t.VerifDump()
	var keys [][]byte
	ok := true
	var sb strings.Builder
	var walk func(i int)
	walk = func(i int) {
		if i < 0 {
			sb.WriteString(".")
			return
		}
		n := d[i]
		if n.Left >= 0 && !(d[n.Left].Rank < n.Rank) {
			ok = false
		}
		if n.Right >= 0 && !(d[n.Right].Rank <= n.Rank) {
			ok = false
		}
		fmt.Fprintf(&sb, "(%s:%d,", lib.Hex(n.Key), n.Rank)
		walk(n.Left)
		keys = append(keys, n.Key)
		sb.WriteString(",")
		walk(n.Right)
		sb.WriteString(")")
	}
	if len(d) > 0 {
		walk(0)
	} else {
		sb.WriteString(".")
	}
	for i := 1; i < len(keys); i++ {
		if bytes.Compare(keys[i-1], keys[i]) >= 0 {
			ok = false
		}
	}
	if !ok || len(keys) != len(d) {
		return "bad " + sb.String()
	}
	return fmt.Sprintf("ok %d %s", len(d), sb.String())
}

func c19Seqs[T any](runs [][]T) []iter.Seq[T] {
	its := make([]iter.Seq[T], len(runs))
	for i, r := range runs {
		its[i] = slices.Values(r)
	}
	return its
}

// c19TimerKey lays an item out like TimerStore.encodeTimerKey: <2 bytes key group><0x01><8 bytes timestamp><subject>;
// the subject is the id, big-endian, so that within a partition equal priorities order by id (= insertion order of the
// generators, which hand out increasing ids)
func c19TimerKey(prio, part, id int) []byte {
	b := make([]byte, 15)
	binary.BigEndian.PutUint16(b[0:2], uint16(part))
	b[2] = 0x01
	binary.BigEndian.PutUint64(b[3:11], uint64(prio))
	binary.BigEndian.PutUint32(b[11:15], uint32(id))
	return b
}

func c19GCmp(a, b c19GEntry) int { return strings.Compare(a.key, b.key) }

func c19Pick(mode string) func(a, b c19GEntry) c19GEntry {
	switch mode {
	case "newest":
		return func(a, b c19GEntry) c19GEntry {
			if a.seq > b.seq {
				return a
			}
			return b
		}
	case "first":
		return func(a, b c19GEntry) c19GEntry { return a }
	case "second":
		return func(a, b c19GEntry) c19GEntry { return b }
	}
	return func(a, b c19GEntry) c19GEntry { a.seq += 1000000; return a }
}

func (st *c19State) op(f []string) string {
	n := func(i int) int { v, _ := strconv.Atoi(f[i]); return v }
	switch f[0] {
	case "z.put":
		// the rank insert would draw is supplied by the case (also to the model), so rank ties run on the real code
		rk, _ := strconv.ParseUint(f[3], 10, 32)
		ziptree.VerifRankSource = func() uint32 { return uint32(rk) }
		defer func() { ziptree.VerifRankSource = nil }()
		old := st.zip.Put(ziptree.NewKVEntry(lib.UnHex(f[1]), lib.UnHex(f[2])))
		if old == nil {
			return "none"
		}
		return "val " + lib.Hex(old.Value)
	case "z.reput":
		// in-place update through a retained reference: Get, change Value, Put the same *Node back
		nd, ok := st.zip.Get(lib.UnHex(f[1]))
		if !ok {
			return "none"
		}
		nd.Value = lib.UnHex(f[2])
		old := st.zip.Put(nd)
		if old == nil {
			return "reput-inserted"
		}
		if old != nd {
			return "reput-returned-other-node " + lib.Hex(old.Value)
		}
		return "val " + lib.Hex(old.Value)
	case "z.ascins":
		// a fresh key inserted from inside the running scan, at the first yielded node (outside the documented use of the
		// tree; the model pins what the iterator does on the nodes it still holds)
		var parts []string
		key, val := lib.UnHex(f[2]), lib.UnHex(f[3])
		rk, _ := strconv.ParseUint(f[4], 10, 32)
		ziptree.VerifRankSource = func() uint32 { return uint32(rk) }
		defer func() { ziptree.VerifRankSource = nil }()
		first := true
		for nd := range st.zip.AscendPrefix(lib.UnHex(f[1])) {
			parts = append(parts, lib.Hex(nd.Key)+"="+lib.Hex(nd.Value))
			if len(parts) > 100000 {
				return "runaway"
			}
			if first {
				first = false
				if _, ok := st.zip.Get(key); !ok {
					st.zip.Put(ziptree.NewKVEntry(key, val))
				}
			}
		}
		if len(parts) == 0 {
			return "list"
		}
		return "list " + strings.Join(parts, ",")
	case "z.ascput":
		// replace every yielded key from inside the scan (fresh node, or the yielded node itself)
		var parts []string
		val := lib.UnHex(f[2])
		for nd := range st.zip.AscendPrefix(lib.UnHex(f[1])) {
			parts = append(parts, lib.Hex(nd.Key)+"="+lib.Hex(nd.Value))
			if len(parts) > 100000 {
				return "runaway"
			}
			if f[3] == "same" {
				nd.Value = val
				st.zip.Put(nd)
			} else {
				st.zip.Put(ziptree.NewKVEntry(nd.Key, val))
			}
		}
		if len(parts) == 0 {
			return "list"
		}
		return "list " + strings.Join(parts, ",")
	case "z.get":
		nd, ok := st.zip.Get(lib.UnHex(f[1]))
		if !ok {
			return "none"
		}
		return "val " + lib.Hex(nd.Value)
	case "z.asc":
		var parts []string
		for nd := range st.zip.AscendPrefix(lib.UnHex(f[1])) {
			parts = append(parts, lib.Hex(nd.Key)+"="+lib.Hex(nd.Value))
			if len(parts) > 100000 {
				return "runaway"
			}
		}
		if len(parts) == 0 {
			return "list"
		}
		return "list " + strings.Join(parts, ",")
	case "z.ascn":
		// a consumer that breaks at its n-th item
		var parts []string
		for nd := range st.zip.AscendPrefix(lib.UnHex(f[1])) {
			parts = append(parts, lib.Hex(nd.Key)+"="+lib.Hex(nd.Value))
			if len(parts) >= n(2) {
				break
			}
		}
		if len(parts) == 0 {
			return "list"
		}
		return "list " + strings.Join(parts, ",")
	case "z.inv":
		return c19ZipShape(st.zip)

	case "h.push":
		it := &c19HItem{prio: n(1), id: n(2), index: -5}
		st.hitems[it.id] = it
		st.heap.Push(it)
		return fmt.Sprintf("size %d", st.heap.Size())
	case "h.pop":
		x, ok := st.heap.Pop()
		if !ok {
			return "none"
		}
		return strconv.Itoa(x.prio)
	case "h.peek":
		x, ok := st.heap.Peek()
		if !ok {
			return "none"
		}
		return strconv.Itoa(x.prio)
	case "h.size":
		return strconv.Itoa(st.heap.Size())
	case "h.fix":
		it, ok := st.hitems[n(1)]
		if !ok || it.index < 0 {
			return "none"
		}
		it.prio = n(2)
		st.heap.Fix(it.index)
		return fmt.Sprintf("some %d", it.index)
	case "h.idx":
		it, ok := st.hitems[n(1)]
		if !ok || it.index < 0 {
			return "none"
		}
		return fmt.Sprintf("some %d", it.index)
	case "h.dump":
		var live []*c19HItem
		for _, it := range st.hitems {
			if it.index >= 0 {
				live = append(live, it)
			}
		}
		sort.Slice(live, func(a, b int) bool {
			if live[a].index != live[b].index {
				return live[a].index < live[b].index
			}
			return live[a].id < live[b].id
		})
		ids := make([]int, len(live))
		for i, it := range live {
			ids[i] = it.id
		}
		return c19ShowInts(ids)

	case "q.new":
		st.prod = nil
		st.newPPQ(n(1))
		return "ok"
	case "q.prod":
		// NewPartitionedPriorityQueue exactly as NewTimerStore builds it: operator.KeyGroupPriorityQueue partitions over a
		// real DKV (in-memory file system), timestamp comparator, key-group partition index; f[2] = cache bytes per partition
		np := n(1)
		st.pdb = dkv.Open(dkv.DBOptions{FileSystem: storage.NewMemoryFilesystem(), Logger: slog.New(slog.NewTextHandler(io.Discard, nil))}, nil)
		st.pparts = make([]*operator.KeyGroupPriorityQueue, np)
		qp := make([]ds.QueuePartition[[]byte], np)
		for i := range qp {
			st.pparts[i] = operator.NewKeyGroupPriorityQueue(st.pdb, partitioning.KeyGroup(i), uint64(n(2)))
			qp[i] = st.pparts[i]
		}
		st.prod = ds.NewPartitionedPriorityQueue(qp,
			func(a, b []byte) int { return bytes.Compare(a[3:11], b[3:11]) },
			func(key []byte) int {
				kg := int(binary.BigEndian.Uint16(key[0:2]))
				if kg >= np {
					panic("no such partition")
				}
				return kg
			})
		return "ok"
	case "q.newp":
		// constructor over partitions that already hold items (as after a restore)
		st.prod = nil
		np := n(1)
		st.parts = make([]*c19Part, np)
		qp := make([]ds.QueuePartition[c19QItem], np)
		for i := range st.parts {
			st.parts[i] = &c19Part{index: -7}
			qp[i] = st.parts[i]
		}
		if f[2] != "_" {
			for _, e := range strings.Split(f[2], ",") {
				x := strings.Split(e, ":")
				a, _ := strconv.Atoi(x[0])
				b, _ := strconv.Atoi(x[1])
				c, _ := strconv.Atoi(x[2])
				if b < np {
					st.parts[b].Push(c19QItem{a, b, c})
				}
			}
		}
		st.ppq = ds.NewPartitionedPriorityQueue(qp, func(a, b c19QItem) int { return a.prio - b.prio }, func(x c19QItem) int { return x.part })
		return "ok"
	case "q.dump":
		if st.prod != nil {
			// a partition's contents are what the DKV holds under its key-group prefix
			ps := make([]string, len(st.pparts))
			for i := range st.pparts {
				var ids []string
				var err error
				for e := range st.pdb.ScanPrefix([]byte{byte(i >> 8), byte(i), 0x01}, &err) {
					ids = append(ids, strconv.FormatUint(uint64(binary.BigEndian.Uint32(e.Key()[11:15])), 10))
				}
				if err != nil {
					return "scan-error"
				}
				ps[i] = strings.Join(ids, ",")
			}
			return "parts " + strings.Join(ps, "|")
		}
		ps := make([]string, len(st.parts))
		for i, p := range st.parts {
			ids := make([]string, len(p.items))
			for j, it := range p.items {
				ids[j] = strconv.Itoa(it.id)
			}
			ps[i] = strings.Join(ids, ",")
		}
		return "parts " + strings.Join(ps, "|")
	case "q.push":
		if st.prod != nil {
			st.prod.Push(c19TimerKey(n(1), n(2), n(3)))
			return "ok"
		}
		st.ppq.Push(c19QItem{n(1), n(2), n(3)})
		return "ok"
	case "q.del":
		if st.prod != nil {
			st.prod.Delete(c19TimerKey(n(1), n(2), n(3)))
			return "ok"
		}
		st.ppq.Delete(c19QItem{n(1), n(2), n(3)})
		return "ok"
	case "q.pop":
		if st.prod != nil {
			b, ok := st.prod.Pop()
			if !ok {
				return "none"
			}
			return strconv.FormatUint(binary.BigEndian.Uint64(b[3:11]), 10)
		}
		x, ok := st.ppq.Pop()
		if !ok {
			return "none"
		}
		return strconv.Itoa(x.prio)
	case "q.peek":
		if st.prod != nil {
			b, ok := st.prod.Peek()
			if !ok {
				return "none"
			}
			return strconv.FormatUint(binary.BigEndian.Uint64(b[3:11]), 10)
		}
		x, ok := st.ppq.Peek()
		if !ok {
			return "none"
		}
		return strconv.Itoa(x.prio)
	case "q.empty":
		if st.prod != nil {
			return strconv.FormatBool(st.prod.IsEmpty())
		}
		return strconv.FormatBool(st.ppq.IsEmpty())
	case "q.idx":
		if st.prod != nil {
			idx := make([]int, len(st.pparts))
			for i, p := range st.pparts {
				idx[i] = p.Index()
			}
			return c19ShowInts(idx)
		}
		idx := make([]int, len(st.parts))
		for i, p := range st.parts {
			idx[i] = p.Index()
		}
		return c19ShowInts(idx)

	case "c.new":
		st.cache = ds.NewSortedCache(uint64(n(1)))
		return "ok"
	case "c.push":
		st.cache.Push(lib.UnHex(f[1]))
		return "ok"
	case "c.pop":
		return c19OptHex(st.cache.Pop())
	case "c.poplast":
		return c19OptHex(st.cache.PopLast())
	case "c.peek":
		return c19OptHex(st.cache.Peek())
	case "c.peeklast":
		// PeekLast was added by the D11 repair; fall back to the tree's maximum on trees without it
		if pl, ok := any(st.cache).(interface{ PeekLast() ([]byte, bool) }); ok {
			return c19OptHex(pl.PeekLast())
		}
		return c19OptHex(st.cache.VerifMax())
	case "c.del":
		st.cache.Delete(lib.UnHex(f[1]))
		return "ok"
	case "c.empty":
		return strconv.FormatBool(st.cache.IsEmpty())
	case "c.full":
		return strconv.FormatBool(st.cache.IsFull())
	case "c.bytes":
		return strconv.FormatUint(st.cache.VerifByteSize(), 10)
	case "c.sum":
		// theorem instance on the implementation: the counter equals the sum of the cached lengths
		sum := uint64(0)
		for _, it := range st.cache.VerifItems() {
			sum += uint64(len(it))
		}
		if sum == st.cache.VerifByteSize() {
			return "ok"
		}
		return fmt.Sprintf("counter=%d contents=%d", st.cache.VerifByteSize(), sum)

	case "s.add":
		st.sets[n(1)].Add(c19Nums(f[2])...)
		return "ok"
	case "s.added":
		st.sets[n(2)] = st.sets[n(1)].Added(c19Nums(f[3])...)
		return "ok"
	case "s.without":
		st.sets[n(2)] = st.sets[n(1)].Without(c19Nums(f[3])...)
		return "ok"
	case "s.diff":
		st.sets[n(3)] = st.sets[n(1)].Diff(st.sets[n(2)])
		return "ok"
	case "s.nil":
		var ns *ds.Set[int]
		cnt := 0
		for range ns.All() {
			cnt++
		}
		if ns.Size() != 0 || cnt != 0 {
			return fmt.Sprintf("nil set: size %d, iterated %d", ns.Size(), cnt)
		}
		return "ok"
	case "s.of":
		st.sets[n(1)] = ds.SetOf(c19Nums(f[2])...)
		return "ok"
	case "s.str":
		return st.sets[n(1)].String()
	case "s.isolated":
		// Added / Without / Diff work on clones: writing to (and appending through) their results must leave the source alone
		src := st.sets[n(1)]
		before := slices.Clone(src.Slice())
		vs := c19Nums(f[2])
		for name, res := range map[string]*ds.Set[int]{"Added": src.Added(vs...), "Without": src.Without(vs...), "Diff": src.Diff(ds.SetOf(vs...))} {
			sl := res.Slice()
			for i := range sl {
				sl[i] = -777
			}
			res.Add(100001, 100002, 100003)
			if !slices.Equal(src.Slice(), before) {
				return name + " result shares its slice with the source"
			}
			for _, v := range before {
				if !src.Has(v) {
					return fmt.Sprintf("%s: source lost %d", name, v)
				}
			}
			if src.Has(100001) || src.Has(-777) || src.Size() != len(before) {
				return name + " result shares its map with the source"
			}
		}
		return "ok"
	case "s.has":
		return strconv.FormatBool(st.sets[n(1)].Has(n(2)))
	case "s.size":
		return strconv.Itoa(st.sets[n(1)].Size())
	case "s.slice":
		var all []int
		for v := range st.sets[n(1)].All() {
			all = append(all, v)
		}
		if !slices.Equal(all, st.sets[n(1)].Slice()) {
			return "all-differs-from-slice"
		}
		return c19ShowInts(all)

	case "m.set":
		return strconv.FormatBool(st.smap.Set(n(1), n(2)))
	case "m.get":
		v, ok := st.smap.Get(n(1))
		if !ok {
			return "none"
		}
		return fmt.Sprintf("some %d", v)
	case "m.has":
		return strconv.FormatBool(st.smap.Has(n(1)))
	case "m.keys":
		return c19ShowInts(slices.Clone(st.smap.Keys()))
	case "m.values":
		return c19ShowInts(st.smap.Values())
	case "m.all":
		var parts []string
		for k, v := range st.smap.All() {
			parts = append(parts, fmt.Sprintf("%d=%d", k, v))
		}
		if len(parts) == 0 {
			return "list"
		}
		return "list " + strings.Join(parts, ",")
	case "m.alln":
		var parts []string
		for k, v := range st.smap.All() {
			parts = append(parts, fmt.Sprintf("%d=%d", k, v))
			if len(parts) >= n(1) {
				break
			}
		}
		if len(parts) == 0 {
			return "list"
		}
		return "list " + strings.Join(parts, ",")
	case "m.valsiso":
		// scribbling over the slice returned by Values() must not change the map
		before := map[int]int{}
		for k, v := range st.smap.All() {
			before[k] = v
		}
		vs := st.smap.Values()
		for i := range vs {
			vs[i] = -12345
		}
		_ = append(vs, 1, 2, 3)
		for k, v := range before {
			if got, ok := st.smap.Get(k); !ok || got != v {
				return fmt.Sprintf("Get(%d) changed after writing to Values()", k)
			}
		}
		if st.smap.Size() != len(before) {
			return "size changed"
		}
		return "ok"
	case "m.del":
		return strconv.FormatBool(st.smap.Delete(n(1)))
	case "m.size":
		return strconv.Itoa(st.smap.Size())

	case "mg.kv":
		runs := c19ParseRuns(f[1])
		eruns := make([][]kv.Entry, len(runs))
		for i, r := range runs {
			for _, e := range r {
				eruns[i] = append(eruns[i], &c19KVEntry{key: []byte(e.key), val: []byte(e.val), seq: uint64(e.seq)})
			}
		}
		var out []c19GEntry
		for e := range kv.MergeEntries(c19Seqs(eruns)) {
			out = append(out, c19GEntry{string(e.Key()), int(e.SeqNum()), string(e.Value())})
		}
		return c19ShowEntries(out)
	case "mg.kvn":
		runs := c19ParseRuns(f[2])
		eruns := make([][]kv.Entry, len(runs))
		for i, r := range runs {
			for _, e := range r {
				eruns[i] = append(eruns[i], &c19KVEntry{key: []byte(e.key), val: []byte(e.val), seq: uint64(e.seq)})
			}
		}
		var out []c19GEntry
		for e := range kv.MergeEntries(c19Seqs(eruns)) {
			out = append(out, c19GEntry{string(e.Key()), int(e.SeqNum()), string(e.Value())})
			if len(out) >= n(1) {
				break
			}
		}
		return c19ShowEntries(out)
	case "mg.genn":
		runs := c19ParseRuns(f[3])
		var out []c19GEntry
		for e := range mergesort.Merge(c19Seqs(runs), c19GCmp, c19Pick(f[1])) {
			out = append(out, e)
			if len(out) >= n(2) {
				break
			}
		}
		return c19ShowEntries(out)
	case "ms.mergen":
		runs := c19ParseRuns(f[2])
		var keys []string
		for e := range iteru.MergeSorted(c19Seqs(runs), c19GCmp) {
			keys = append(keys, lib.Hex([]byte(e.key)))
			if len(keys) >= n(1) {
				break
			}
		}
		if len(keys) == 0 {
			return "keys"
		}
		return "keys " + strings.Join(keys, ",")
	case "mg.thm":
		// theorem instance on the implementation (C19.mergeEntries_newest_wins): for runs with ascending keys the
		// output of kv.MergeEntries is strictly ascending, made of input entries, and the newest version of every key wins
		runs := c19ParseRuns(f[1])
		eruns := make([][]kv.Entry, len(runs))
		for i, r := range runs {
			for j, e := range r {
				if j > 0 && !(r[j-1].key <= e.key) {
					return "ok" // hypothesis (sorted runs) not met
				}
				eruns[i] = append(eruns[i], &c19KVEntry{key: []byte(e.key), val: []byte(e.val), seq: uint64(e.seq)})
			}
		}
		var out []kv.Entry
		for e := range kv.MergeEntries(c19Seqs(eruns)) {
			out = append(out, e)
		}
		for i := 1; i < len(out); i++ {
			if bytes.Compare(out[i-1].Key(), out[i].Key()) >= 0 {
				return fmt.Sprintf("not-strictly-ascending at %d", i)
			}
		}
		for _, o := range out {
			found := false
			for _, r := range eruns {
				for _, e := range r {
					found = found || e == o
				}
			}
			if !found {
				return "output-not-an-input"
			}
		}
		for _, r := range eruns {
			for _, y := range r {
				ok := false
				for _, o := range out {
					if bytes.Equal(o.Key(), y.Key()) && o.SeqNum() >= y.SeqNum() {
						ok = true
					}
				}
				if !ok {
					return fmt.Sprintf("newest-lost key=%s seq=%d", lib.Hex(y.Key()), y.SeqNum())
				}
			}
		}
		return "ok"
	case "mg.gen":
		runs := c19ParseRuns(f[2])
		var out []c19GEntry
		for e := range mergesort.Merge(c19Seqs(runs), c19GCmp, c19Pick(f[1])) {
			out = append(out, e)
		}
		return c19ShowEntries(out)
	case "mg.pickthm":
		// theorem instance on the implementation (C19.merge_any_pick): with a pick that returns one of its arguments and
		// sorted runs, Merge does not panic, yields strictly ascending keys, only input items, and every input key
		runs := c19ParseRuns(f[2])
		for _, r := range runs {
			for j := 1; j < len(r); j++ {
				if !(r[j-1].key <= r[j].key) {
					return "ok" // hypothesis (sorted runs) not met
				}
			}
		}
		var out []c19GEntry
		for e := range mergesort.Merge(c19Seqs(runs), c19GCmp, c19Pick(f[1])) {
			out = append(out, e)
		}
		for i := 1; i < len(out); i++ {
			if !(out[i-1].key < out[i].key) {
				return fmt.Sprintf("not-strictly-ascending at %d", i)
			}
		}
		for _, o := range out {
			found := false
			for _, r := range runs {
				found = found || slices.Contains(r, o)
			}
			if !found {
				return "output-not-an-input"
			}
		}
		for _, r := range runs {
			for _, y := range r {
				if !slices.ContainsFunc(out, func(o c19GEntry) bool { return o.key == y.key }) {
					return "key-lost " + lib.Hex([]byte(y.key))
				}
			}
		}
		return "ok"
	case "ms.merge", "ms.raw":
		runs := c19ParseRuns(f[1])
		var out []c19GEntry
		for e := range iteru.MergeSorted(c19Seqs(runs), c19GCmp) {
			out = append(out, e)
		}
		if f[0] == "ms.merge" {
			out = c19Canon(out)
		}
		return c19ShowEntries(out)

	case "su.bytes":
		var xs [][]byte
		if f[2] != "_" {
			for _, h := range strings.Split(f[2], ",") {
				xs = append(xs, lib.UnHex(h))
			}
		}
		i, ok := sliceu.SearchUnique(xs, lib.UnHex(f[1]), bytes.Compare)
		return c19Found(i, ok)
	case "su.int":
		xs := c19Nums(f[2])
		i, ok := sliceu.SearchUnique(xs, n(1), func(e, t int) int {
			if e < t {
				return -1
			}
			if e > t {
				return 1
			}
			return 0
		})
		return c19Found(i, ok)
	case "su.tblthm":
		// theorem instance on the implementation (C19.searchTables_correct): on a level of disjoint ascending ranges
		// the lookup returns table i iff table i's RangeContainsKey holds, and none iff no table contains the key
		var ts []*sst.Table
		var prevEnd []byte
		if f[2] != "_" {
			for j, h := range strings.Split(f[2], ",") {
				se := strings.Split(h, ":")
				s0, e0 := lib.UnHex(se[0]), lib.UnHex(se[1])
				if bytes.Compare(s0, e0) > 0 || (j > 0 && bytes.Compare(prevEnd, s0) >= 0) {
					return "ok" // hypothesis (LevelOk) not met
				}
				prevEnd = e0
				ts = append(ts, sst.VerifTableWithRange(s0, e0))
			}
		}
		key := lib.UnHex(f[1])
		i, ok := sliceu.SearchUnique(ts, key, (*sst.Table).RangeKeyCompare)
		if ok && !ts[i].RangeContainsKey(key) {
			return fmt.Sprintf("returned table %d does not contain the key", i)
		}
		if !ok {
			for j, t := range ts {
				if t.RangeContainsKey(key) {
					return fmt.Sprintf("table %d contains the key but nothing was found", j)
				}
			}
		}
		return "ok"
	case "su.tbl":
		var ts []*sst.Table
		if f[2] != "_" {
			for _, h := range strings.Split(f[2], ",") {
				se := strings.Split(h, ":")
				ts = append(ts, sst.VerifTableWithRange(lib.UnHex(se[0]), lib.UnHex(se[1])))
			}
		}
		i, ok := sliceu.SearchUnique(ts, lib.UnHex(f[1]), (*sst.Table).RangeKeyCompare)
		return c19Found(i, ok)
	}
	return "bad-op"
}

func c19Found(i int, ok bool) string {
	if !ok {
		if i != 0 {
			return fmt.Sprintf("notfound-with-index %d", i)
		}
		return "none"
	}
	return fmt.Sprintf("some %d", i)
}

func (st *c19State) safeOp(line string) (out string) {
	defer func() {
		if r := recover(); r != nil {
			out = "panic"
		}
	}()
	f := strings.Fields(line)
	if len(f) == 0 {
		return "bad-op"
	}
	return st.op(f)
}

// ---------- generators ----------

var c19Pool = [][]byte{
	{}, {0x00}, {0x00, 0x00}, {0x00, 0xff}, []byte("a"), []byte("a\x00"), []byte("a\xff"), []byte("ab"), []byte("abc"),
	[]byte("abd"), []byte("b"), []byte("ba"), {0x7f}, {0x80}, {0xff}, {0xff, 0x00}, {0xff, 0xff}, {0xff, 0xff, 0xff},
}

func c19Key(r *lib.Rng) []byte {
	switch r.Intn(10) {
	case 0:
		return r.Bytes(r.Range(0, 3))
	case 1:
		b := slices.Clone(lib.Pick(r, c19Pool))
		return append(b, lib.Pick(r, []byte{0x00, 0xff, 'a', 'b'}))
	default:
		return lib.Pick(r, c19Pool)
	}
}

func c19SortedKeys(r *lib.Rng, n int, strict bool) [][]byte {
	ks := make([][]byte, 0, n)
	for i := 0; i < n; i++ {
		ks = append(ks, c19Key(r))
	}
	sort.Slice(ks, func(a, b int) bool { return bytes.Compare(ks[a], ks[b]) < 0 })
	if strict {
		ks = slices.CompactFunc(ks, bytes.Equal)
	}
	return ks
}

func c19Runs(r *lib.Rng, maxRuns, maxLen int, strict, distinctSeq, sorted bool) string {
	k := r.Range(0, maxRuns)
	if k == 0 {
		return "!"
	}
	seq := 0
	perm := make([]int, 0, k*maxLen)
	for i := 0; i < k*maxLen+1; i++ {
		perm = append(perm, i+1)
	}
	for i := len(perm) - 1; i > 0; i-- {
		j := r.Intn(i + 1)
		perm[i], perm[j] = perm[j], perm[i]
	}
	runs := make([]string, k)
	for i := range runs {
		ks := c19SortedKeys(r, r.Range(0, maxLen), strict)
		if !sorted && len(ks) > 1 {
			j := r.Intn(len(ks) - 1)
			ks[j], ks[j+1] = ks[j+1], ks[j]
		}
		if len(ks) == 0 {
			runs[i] = "_"
			continue
		}
		es := make([]string, len(ks))
		for j, key := range ks {
			s := perm[seq%len(perm)]
			seq++
			if !distinctSeq {
				s = r.Intn(4)
			}
			es[j] = fmt.Sprintf("%s:%d:%s", lib.Hex(key), s, lib.Hex([]byte{byte(i), byte(j)}))
		}
		runs[i] = strings.Join(es, ",")
	}
	return strings.Join(runs, "|")
}

func c19JoinInts(xs []int) string {
	if len(xs) == 0 {
		return "_"
	}
	p := make([]string, len(xs))
	for i, x := range xs {
		p[i] = strconv.Itoa(x)
	}
	return strings.Join(p, ",")
}

func c19SomeInts(r *lib.Rng, maxN, rng int) []int {
	n := r.Range(0, maxN)
	xs := make([]int, n)
	for i := range xs {
		xs[i] = r.Intn(rng)
	}
	return xs
}

var c19Kinds = []string{"zip", "heap", "ppq", "cache", "set", "smap", "merge", "search"}

func c19Gen(r *lib.Rng, tier string, i int) lib.Case {
	kind := c19Kinds[i%len(c19Kinds)]
	maxOps := 60
	if tier == "thorough" {
		maxOps = 400
	}
	nops := r.Range(5, maxOps)
	var ops []string
	add := func(format string, a ...any) { ops = append(ops, fmt.Sprintf(format, a...)) }
	switch kind {
	case "zip":
		rankMax := lib.Pick(r, []int{1, 2, 4, 1 << 16, 1 << 32})
		for len(ops) < nops {
			switch x := r.Intn(100); {
			case x < 44:
				add("z.put %s %s %d", lib.Hex(c19Key(r)), lib.Hex(r.Bytes(r.Range(0, 2))), r.U64()%uint64(rankMax))
			case x < 49:
				add("z.reput %s %s", lib.Hex(c19Key(r)), lib.Hex(r.Bytes(r.Range(0, 2))))
			case x < 52:
				add("z.ascput %s %s %s", lib.Hex(c19Key(r)), lib.Hex(r.Bytes(r.Range(0, 2))), lib.Pick(r, []string{"fresh", "same"}))
			case x < 54:
				add("z.ascins %s %s %s %d", lib.Hex(lib.Pick(r, [][]byte{{}, {}, {}, []byte("a"), c19Key(r)})), lib.Hex(c19Key(r)), lib.Hex(r.Bytes(1)), r.U64()%uint64(rankMax))
			case x < 58:
				add("z.ascn %s %d", lib.Hex(lib.Pick(r, [][]byte{{}, {}, []byte("a"), {0xff}, c19Key(r)})), r.Range(1, 5))
			case x < 72:
				add("z.get %s", lib.Hex(c19Key(r)))
			case x < 94:
				add("z.asc %s", lib.Hex(c19Key(r)))
			default:
				add("z.inv")
			}
		}
		add("z.asc -")
		add("z.inv")
	case "heap":
		prioMax := lib.Pick(r, []int{1, 3, 6, 100})
		id := 0
		for len(ops) < nops {
			switch x := r.Intn(100); {
			case x < 40:
				id++
				add("h.push %d %d", r.Intn(prioMax), id)
			case x < 62:
				add("h.pop")
			case x < 67:
				add("h.peek")
			case x < 85:
				add("h.fix %d %d", r.Range(1, id+1), r.Intn(prioMax))
			case x < 90:
				add("h.idx %d", r.Range(1, id+1))
			case x < 95:
				add("h.dump")
			default:
				add("h.size")
			}
		}
		add("h.dump")
		for j := 0; j < id+1 && j < 40; j++ {
			add("h.pop")
		}
	case "ppq":
		np := r.Range(1, 6)
		prioMax := lib.Pick(r, []int{1, 3, 6, 100})
		var live []string
		id := 0
		if r.Chance(1, 3) {
			// construct over partitions that already hold items
			var init []string
			for j := r.Range(1, 8); j > 0; j-- {
				id++
				pr, pa := r.Intn(prioMax), r.Intn(np)
				init = append(init, fmt.Sprintf("%d:%d:%d", pr, pa, id))
				live = append(live, fmt.Sprintf("%d %d %d", pr, pa, id))
			}
			add("q.newp %d %s", np, strings.Join(init, ","))
			add("q.idx")
			add("q.peek")
		} else if r.Chance(1, 2) {
			// the production partition type over a real DKV, with a cache small enough to evict and reload
			add("q.prod %d %d", np, lib.Pick(r, []int{0, 20, 40, 100, 100000}))
		} else {
			add("q.new %d", np)
		}
		for len(ops) < nops {
			switch x := r.Intn(100); {
			case x < 40:
				id++
				it := fmt.Sprintf("%d %d %d", r.Intn(prioMax), r.Intn(np), id)
				live = append(live, it)
				add("q.push %s", it)
			case x < 62:
				add("q.pop")
			case x < 72:
				add("q.peek")
			case x < 84:
				if len(live) > 0 && r.Chance(4, 5) {
					j := r.Intn(len(live))
					add("q.del %s", live[j])
					live = slices.Delete(live, j, j+1)
				} else {
					add("q.del %d %d %d", r.Intn(prioMax), r.Intn(np), 1000+r.Intn(5))
				}
			case x < 88:
				add("q.empty")
			case x < 92:
				add("q.dump")
			default:
				add("q.idx")
			}
		}
		add("q.idx")
		add("q.dump")
		for j := 0; j < id+1 && j < 40; j++ {
			add("q.pop")
		}
		add("q.empty")
	case "cache":
		add("c.new %d", r.Intn(30))
		for len(ops) < nops {
			switch x := r.Intn(100); {
			case x < 40:
				add("c.push %s", lib.Hex(c19Key(r)))
			case x < 43:
				// drain from the back down to zero, then consult Peek before and after a refill (seed C19-6: a cached
				// minimum that PopLast forgot to refresh)
				for j := r.Range(1, 6); j > 0; j-- {
					add("c.poplast")
				}
				add("c.peek")
				add("c.empty")
				add("c.push %s", lib.Hex(c19Key(r)))
				add("c.peek")
				add("c.peeklast")
			case x < 50:
				add("c.pop")
			case x < 58:
				add("c.poplast")
			case x < 61:
				add("c.peek")
			case x < 63:
				add("c.peeklast")
			case x < 75:
				add("c.del %s", lib.Hex(c19Key(r)))
			case x < 80:
				add("c.empty")
			case x < 88:
				add("c.full")
			case x < 94:
				add("c.bytes")
			default:
				add("c.sum")
			}
		}
		add("c.bytes")
		add("c.sum")
		add("c.full")
	case "set":
		for len(ops) < nops {
			switch x := r.Intn(100); {
			case x < 30:
				add("s.add %d %s", r.Intn(4), c19JoinInts(c19SomeInts(r, 4, 8)))
			case x < 40:
				add("s.added %d %d %s", r.Intn(4), r.Intn(4), c19JoinInts(c19SomeInts(r, 4, 8)))
			case x < 55:
				add("s.without %d %d %s", r.Intn(4), r.Intn(4), c19JoinInts(c19SomeInts(r, 4, 8)))
			case x < 65:
				add("s.diff %d %d %d", r.Intn(4), r.Intn(4), r.Intn(4))
			case x < 68:
				add("s.of %d %s", r.Intn(4), c19JoinInts(c19SomeInts(r, 5, 8)))
			case x < 72:
				add("s.isolated %d %s", r.Intn(4), c19JoinInts(c19SomeInts(r, 4, 8)))
			case x < 74:
				add("s.nil")
			case x < 78:
				add("s.str %d", r.Intn(4))
			case x < 86:
				add("s.has %d %d", r.Intn(4), r.Intn(8))
			case x < 92:
				add("s.size %d", r.Intn(4))
			default:
				add("s.slice %d", r.Intn(4))
			}
		}
		for j := 0; j < 4; j++ {
			add("s.slice %d", j)
			add("s.str %d", j)
		}
	case "smap":
		kmax := lib.Pick(r, []int{4, 12, 1000})
		for len(ops) < nops {
			switch x := r.Intn(100); {
			case x < 40:
				add("m.set %d %d", r.Intn(kmax), r.Intn(100))
			case x < 52:
				add("m.get %d", r.Intn(kmax))
			case x < 58:
				add("m.has %d", r.Intn(kmax))
			case x < 66:
				add("m.keys")
			case x < 70:
				add("m.values")
			case x < 72:
				add("m.valsiso")
			case x < 75:
				add("m.alln %d", r.Range(1, 4))
			case x < 78:
				add("m.all")
			case x < 94:
				add("m.del %d", r.Intn(kmax))
			default:
				add("m.size")
			}
		}
		add("m.all")
		add("m.size")
	case "merge":
		n := min(nops, 12)
		for len(ops) < n {
			switch x := r.Intn(100); {
			case x < 8:
				add("mg.thm %s", c19Runs(r, 5, 6, true, r.Bool(), true))
			case x < 13:
				add("mg.pickthm %s %s", lib.Pick(r, []string{"first", "second", "newest"}), c19Runs(r, 5, 6, r.Bool(), r.Bool(), true))
			case x < 18:
				add("mg.kvn %d %s", r.Range(1, 6), c19Runs(r, 5, 6, true, true, true))
			case x < 22:
				add("mg.genn %s %d %s", lib.Pick(r, []string{"first", "second", "bad", "newest"}), r.Range(1, 5), c19Runs(r, 4, 5, r.Bool(), r.Bool(), r.Chance(4, 5)))
			case x < 26:
				add("ms.mergen %d %s", r.Range(1, 8), c19Runs(r, 5, 6, false, true, true))
			case x < 36:
				add("mg.kv %s", c19Runs(r, 5, 6, true, true, true))
			case x < 50:
				add("mg.gen newest %s", c19Runs(r, 5, 6, true, true, true))
			case x < 60:
				add("mg.gen %s %s", lib.Pick(r, []string{"first", "second", "bad", "newest"}), c19Runs(r, 4, 5, r.Bool(), r.Bool(), r.Chance(4, 5)))
			case x < 85:
				add("ms.merge %s", c19Runs(r, 5, 6, false, true, true))
			default:
				add("ms.raw %s", c19Runs(r, 5, 6, false, r.Bool(), r.Chance(4, 5)))
			}
		}
	case "search":
		n := min(nops, 30)
		for len(ops) < n {
			switch x := r.Intn(100); {
			case x < 45:
				ks := c19SortedKeys(r, r.Range(0, 12), true)
				hs := make([]string, len(ks))
				for j, k := range ks {
					hs[j] = lib.Hex(k)
				}
				t := c19Key(r)
				if len(ks) > 0 && r.Chance(2, 3) {
					t = lib.Pick(r, ks)
				}
				list := "_"
				if len(hs) > 0 {
					list = strings.Join(hs, ",")
				}
				add("su.bytes %s %s", lib.Hex(t), list)
			case x < 60:
				m := r.Range(0, 12)
				xs := make([]int, m)
				v := 0
				for j := range xs {
					v += r.Range(1, 3)
					xs[j] = v
				}
				add("su.int %d %s", r.Intn(v+2), c19JoinInts(xs))
			default:
				ks := c19SortedKeys(r, r.Range(0, 14), true)
				if len(ks)%2 == 1 && r.Chance(1, 2) {
					ks = append(ks[:1], ks...) // a single-key table [k, k]
				}
				var ts []string
				for j := 0; j+1 < len(ks); j += 2 {
					ts = append(ts, lib.Hex(ks[j])+":"+lib.Hex(ks[j+1]))
				}
				t := c19Key(r)
				if len(ks) > 0 && r.Chance(1, 2) {
					t = lib.Pick(r, ks)
				}
				list := "_"
				if len(ts) > 0 {
					list = strings.Join(ts, ",")
				}
				add("su.tbl %s %s", lib.Hex(t), list)
				add("su.tblthm %s %s", lib.Hex(t), list)
			}
		}
	}
	return lib.Case{Header: "M C19", Ops: ops, Tags: []string{kind}}
}

func c19Fixed(tier string) []lib.Case {
	var cs []lib.Case
	// D1 (fixed: bb43ff8): SearchUnique([0,2], 0) reported not-found with `high = i - 1`
	cs = append(cs, lib.Case{Header: "M C19", Tags: []string{"regress-D1"}, Ops: []string{
		"su.int 0 0,2", "su.bytes 00 00,02", "su.tbl 00 00:00,02:03", "su.int 0 0,2,4,6,8", "su.int 4 0,2,4,6,8",
	}})
	// D10 (fixed: 44d82f9): pushing a cached value again must not grow the byte counter
	cs = append(cs, lib.Case{Header: "M C19", Tags: []string{"regress-D10"}, Ops: []string{
		"c.new 4", "c.push 6161", "c.push 6161", "c.push 6161", "c.push 6161", "c.push 6161", "c.full", "c.bytes", "c.sum",
		"c.push 62", "c.full", "c.push 6363", "c.full", "c.pop", "c.bytes", "c.del 62", "c.del 62", "c.bytes", "c.sum", "c.poplast", "c.bytes", "c.empty",
	}})
	// D33 (repaired): popping the last remaining element re-assigned index 0 to the popped element
	cs = append(cs, lib.Case{Header: "M C19", Tags: []string{"regress-D33"}, Ops: []string{
		"h.push 0 2", "h.pop", "h.idx 2", "h.dump", "h.fix 2 5", "h.push 3 3", "h.fix 2 9", "h.dump", "h.pop", "h.idx 3", "h.pop",
	}})
	// Peek after the cache was drained from the back to zero, and after a refill with larger items (seed C19-6)
	cs = append(cs, lib.Case{Header: "M C19", Tags: []string{"cache-drain-back"}, Ops: []string{
		"c.new 10", "c.push 6d", "c.poplast", "c.peek", "c.peeklast", "c.empty", "c.pop", "c.push 71", "c.peek", "c.push 62", "c.peek",
		"c.poplast", "c.peek", "c.poplast", "c.peek", "c.bytes", "c.sum", "c.push 7a", "c.push 79", "c.peek", "c.del 79", "c.peek", "c.poplast", "c.peek",
	}})
	// SearchUnique exhaustively: every length up to 9 (12 thorough), every target between and around the elements
	maxN := 9
	if tier == "thorough" {
		maxN = 12
	}
	var ops []string
	for n := 0; n <= maxN; n++ {
		xs := make([]int, n)
		var hs, ts []string
		for j := range xs {
			xs[j] = 2*j + 1
			hs = append(hs, lib.Hex([]byte{byte(2*j + 1)}))
			ts = append(ts, lib.Hex([]byte{byte(4*j + 1)})+":"+lib.Hex([]byte{byte(4*j + 2)}))
		}
		hl, tl := "_", "_"
		if n > 0 {
			hl, tl = strings.Join(hs, ","), strings.Join(ts, ",")
		}
		for t := 0; t <= 2*n+1; t++ {
			ops = append(ops, fmt.Sprintf("su.int %d %s", t, c19JoinInts(xs)))
			ops = append(ops, fmt.Sprintf("su.bytes %s %s", lib.Hex([]byte{byte(t)}), hl))
		}
		for t := 0; t <= 4*n+1; t++ {
			ops = append(ops, fmt.Sprintf("su.tbl %s %s", lib.Hex([]byte{byte(t)}), tl))
			ops = append(ops, fmt.Sprintf("su.tblthm %s %s", lib.Hex([]byte{byte(t)}), tl))
		}
	}
	cs = append(cs, lib.Case{Header: "M C19", Tags: []string{"search-exhaustive"}, Ops: ops})
	// heap and partitioned queue: every operation sequence of a fixed length over a small alphabet with tied priorities
	// (a search aid next to the all-histories theorems heap_run_refines / ppq_peek_is_global_min)
	enumLen := 4
	if tier == "thorough" {
		enumLen = 6
	}
	total := 1
	for i := 0; i < enumLen; i++ {
		total *= 6
	}
	for code := 0; code < total; code++ {
		var hops, qops []string
		qops = append(qops, "q.new 2")
		id, c := 0, code
		first := ""
		for i := 0; i < enumLen; i++ {
			a := c % 6
			c /= 6
			switch a {
			case 0, 1, 2:
				id++
				hops = append(hops, fmt.Sprintf("h.push %d %d", a, id))
			case 3:
				hops = append(hops, "h.pop")
			case 4:
				hops = append(hops, "h.fix 1 2")
			case 5:
				hops = append(hops, fmt.Sprintf("h.fix %d 0", max(id, 1)))
			}
			switch a {
			case 0, 1, 2, 4:
				it := fmt.Sprintf("%d %d %d", a%2, (a/2)%2, i+1)
				if first == "" {
					first = it
				}
				qops = append(qops, "q.push "+it)
			case 3:
				qops = append(qops, "q.pop")
			case 5:
				if first == "" {
					qops = append(qops, "q.del 0 0 99")
				} else {
					qops = append(qops, "q.del "+first)
				}
			}
		}
		hops = append(hops, "h.dump", "h.idx 1")
		qops = append(qops, "q.idx", "q.dump", "q.peek")
		for i := 0; i <= enumLen; i++ {
			hops = append(hops, "h.pop")
			qops = append(qops, "q.pop")
		}
		hops = append(hops, "h.idx 1", "h.size")
		qops = append(qops, "q.empty", "q.idx")
		cs = append(cs, lib.Case{Header: "M C19", Tags: []string{"heap-enum"}, Ops: hops})
		cs = append(cs, lib.Case{Header: "M C19", Tags: []string{"ppq-enum"}, Ops: qops})
	}
	// zip tree: equal ranks everywhere in the model, replacement, prefix iteration with "" / missing / exact prefix
	cs = append(cs, lib.Case{Header: "M C19", Tags: []string{"zip-fixed"}, Ops: []string{
		"z.asc -", "z.get -", "z.put 62 01 0", "z.put 61 02 0", "z.put 63 03 0", "z.put - 04 0", "z.put 6162 05 0", "z.put 61 06 0",
		"z.inv", "z.asc -", "z.asc 61", "z.asc 6162", "z.asc 6161", "z.asc 62", "z.asc ff", "z.get -", "z.get 61", "z.get 6163",
		"z.put 00 07 3", "z.put ff 08 3", "z.put 6100 09 3", "z.asc 61", "z.asc 00", "z.asc -", "z.inv",
	}})
	// in-place update of a retained node and replacement from inside a running scan (seed C19-5: Put cleared the links of
	// the node it replaced), on a tree built with tied ranks so that the node has two subtrees
	cs = append(cs, lib.Case{Header: "M C19", Tags: []string{"zip-reput"}, Ops: []string{
		"z.put 62 01 1", "z.put 61 02 0", "z.put 63 03 0", "z.put 6161 04 0", "z.put 6263 05 0", "z.inv",
		"z.reput 62 11", "z.inv", "z.asc -", "z.reput 61 12", "z.reput 7a 13", "z.get 62", "z.get 61", "z.asc -",
		"z.ascput - 21 fresh", "z.asc -", "z.inv", "z.ascput 61 22 same", "z.asc -", "z.ascput 62 23 same", "z.asc -", "z.inv",
		"z.put 60 06 1", "z.put 64 07 1", "z.put 6262 08 1", "z.inv", "z.ascput - 24 same", "z.asc -", "z.inv",
	}})
	// a fresh key inserted from inside a running scan (the auditor's witness: the scan skips the pre-existing key 66)
	cs = append(cs, lib.Case{Header: "M C19", Tags: []string{"zip-insert-in-scan"}, Ops: []string{
		"z.put 6d 01 1", "z.put 63 02 0", "z.put 66 03 0", "z.inv", "z.ascins - 64 04 5", "z.inv", "z.asc -",
		"z.ascins - 65 05 0", "z.asc -", "z.ascins 63 62 06 9", "z.asc -", "z.ascins - 64 07 3", "z.inv",
	}})
	// heap / queue with all-equal priorities and Fix in both directions
	cs = append(cs, lib.Case{Header: "M C19", Tags: []string{"heap-fixed"}, Ops: []string{
		"h.pop", "h.peek", "h.push 1 1", "h.push 1 2", "h.push 1 3", "h.push 0 4", "h.dump", "h.fix 4 5", "h.dump", "h.fix 3 0", "h.dump",
		"h.fix 9 1", "h.pop", "h.pop", "h.fix 3 2", "h.pop", "h.pop", "h.pop", "h.size",
		"q.new 3", "q.pop", "q.peek", "q.empty", "q.push 5 0 1", "q.push 5 1 2", "q.push 5 2 3", "q.push 1 2 4", "q.idx", "q.peek",
		"q.del 1 2 4", "q.peek", "q.idx", "q.pop", "q.pop", "q.pop", "q.pop", "q.empty",
	}})
	return cs
}

func propC19() *lib.Prop {
	return &lib.Prop{
		ID:   "C19",
		Corr: "Model/{ZipTree,Heap,Merge,Search,Containers}.lean ↔ dkv/ziptree, util/ds (Heap, PartitionedPriorityQueue, SortedCache, Set, SortedMap), dkv/mergesort.Merge, kv.MergeEntries, util/iteru.MergeSorted, util/sliceu.SearchUnique",
		Rule: "one case = one random op sequence on one structure (kinds rotate: zip, heap, ppq, cache, set, smap, merge, search) with keys from a pool of \"\", nested prefixes, 0x00/0xff bytes, duplicates and equal priorities; non-trivial = the run produced a replacement / a non-empty iteration / a successful pop, delete or lookup (not only misses on empty structures)",
		NumCases: func(tier string) int {
			if tier == "thorough" {
				return 16000
			}
			return 4000
		},
		Gen:   c19Gen,
		Fixed: c19Fixed,
		Impl: func(c lib.Case) []string {
			st := c19NewState()
			out := make([]string, len(c.Ops))
			for i, o := range c.Ops {
				out[i] = st.safeOp(o)
			}
			return out
		},
		Nontrivial: func(c lib.Case, out []string) bool {
			hits := 0
			for i, o := range out {
				switch {
				case o == "none" || o == "ok" || o == "list" || o == "false" || o == "0":
				case strings.HasPrefix(c.Ops[i], "h.push") || strings.HasPrefix(c.Ops[i], "z.inv"):
				default:
					hits++
				}
			}
			return hits >= 2
		},
		MObs: func(op string) bool {
			for _, p := range []string{"z.inv", "h.dump", "h.idx", "h.fix", "q.idx", "q.dump", "ms.raw", "mg.gen first", "mg.gen second", "mg.gen bad", "mg.genn first", "mg.genn second", "mg.genn bad"} {
				if strings.HasPrefix(op, p) {
					return true
				}
			}
			return false
		},
	}
}
