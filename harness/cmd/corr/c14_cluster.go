package main

// C14 cluster mode (header `M C14 mode=cluster ...`): the savepoint path END TO END on the real components —
// the REAL jobs.Job (HandleCreateSavepoint, HandleGetSavepointURI, jobs.New{SavepointURI}) with its real
// snapshots.Store on a real locations.LocalDirectory, REAL workers (SourceRunner + Operator + DKV on the same
// directory, Operator.HandleDeploy from the restored handles), wired by the C01 mini-cluster adapters
// (c01_cluster.go: scripted source, reference handler whose per-key state is the list of records it has handled,
// gated acknowledgements and job snapshot writes).
//
// Ops are theorem instances evaluated on the implementation (the driver answers the constant the theorems give):
//   boot                 the job deploys its assembly                                     -> running
//   feed <seed> <count>  records are made available and handled                          -> ok
//   ckpt <seed>          one periodic checkpoint round                                    -> done
//   savepoint <seed> [fold]  Job.HandleCreateSavepoint (fold: while a periodic checkpoint is in progress: the same
//                        id must be returned and no second round started), acknowledgements, publication, then
//                        Job.HandleGetSavepointURI succeeds                               -> savepoint ok
//   restart <m> <wipe|keep>  all processes end, (wipe: every file outside savepoints/ is deleted,) a new job is
//                        started with SavepointURI and m workers. P-obs: it deploys from the savepoint's checkpoint
//                        id with exactly the source cursors the runners acknowledged for it -> restored ok
//   feed ... after a restart additionally checks every handler invocation: the state the handler is given for a
//                        key is exactly the records of that key before the savepoint's cut (in their original
//                        order) followed by those handled since the restart (C14 "same operator state"; with
//                        m != n through the rescale path of C06).
// Timers are not exercised (the reference handler sets none).

import (
	"context"
	"fmt"
	"log/slog"
	"os"
	"path/filepath"
	"strconv"
	"strings"
	"time"

	"reduction.dev/reduction/config"
	"reduction.dev/reduction/connectors"
	"reduction.dev/reduction/dkv"
	"reduction.dev/reduction/dkv/recovery"
	"reduction.dev/reduction/dkv/storage"
	"reduction.dev/reduction/jobs"
	"reduction.dev/reduction/proto"
	"reduction.dev/reduction/proto/jobpb"
	"reduction.dev/reduction/storage/locations"

	"verif/harness/lib"
)

type c14Cluster struct {
	w        *c01World
	n        int
	spID     uint64
	spURI    string
	cut      []int            // source cursor per split at the savepoint
	run1     []string         // d: tokens of the run the savepoint was taken in, in order
	pre      map[int][]string // per key: records before the cut, in the order they were handled
	post     map[int][]string // per key: records handled since the restart
	restored bool
	problem  string
	scratch  int
	keep     []any
}

func c14ClusterNewJob(w *c01World, n int, savepointURI string) error {
	w.mu.Lock()
	w.jobGen++
	gen := w.jobGen
	w.mu.Unlock()
	clk := newC01Clock()
	quiet := slog.New(slog.NewTextHandler(c01Discard{}, nil))
	job, err := jobs.New(&jobs.NewParams{
		JobConfig: &config.Config{WorkerCount: n, KeyGroupCount: w.cfg.kgc, WorkingStorageLocation: w.dir,
			Sources: []connectors.SourceConfig{c01Source{w}}},
		SavepointURI:      savepointURI,
		Clock:             clk,
		HeartbeatDeadline: c01Heartbeat * time.Second,
		Store:             &c01Loc{w: w, gen: gen, mu: w.loc.mu, loc: w.loc.loc},
		Logger:            quiet,
		OperatorFactory:   w.opFactory,
		SourceRunnerFactory: func(node *jobpb.NodeIdentity) proto.SourceRunner {
			w.mu.Lock()
			t := w.byID[node.Id]
			w.mu.Unlock()
			if t == nil {
				panic("c14: unknown source runner " + node.Id)
			}
			return &c01SrClient{w: w, target: t}
		},
		ErrChan: w.errCh,
	})
	if err != nil {
		return err
	}
	w.mu.Lock()
	w.tickSeen = map[uint64]bool{}
	w.job, w.jclk, w.jobDown = job, clk, false
	w.cfg.n = n
	w.mu.Unlock()
	return nil
}

// absorb reads the event tokens produced since the last call
func (c *c14Cluster) absorb() []string {
	toks := strings.Fields(c.w.take())
	for _, t := range toks {
		if strings.HasPrefix(t, "!") || strings.HasPrefix(t, "sa:") {
			if c.problem == "" {
				c.problem = "event " + t
			}
		}
		if !strings.HasPrefix(t, "d:") {
			continue
		}
		// d:<o>:<sp>:<i>:<k>|<st>
		head, st, _ := strings.Cut(t, "|")
		p := strings.Split(head, ":")
		if len(p) != 5 {
			continue
		}
		sp, _ := strconv.Atoi(p[2])
		idx, _ := strconv.Atoi(p[3])
		k, _ := strconv.Atoi(p[4])
		if !c.restored {
			c.run1 = append(c.run1, t)
			continue
		}
		want := strings.Join(append(append([]string{}, c.pre[k]...), c.post[k]...), ",")
		if want == "" {
			want = "-"
		}
		if st != want && c.problem == "" {
			c.problem = fmt.Sprintf("state-of-key-%d-after-restore given=[%s] want=[%s] at record %d.%d", k, st, want, sp, idx)
		}
		c.post[k] = append(c.post[k], fmt.Sprintf("%d.%d", sp, idx))
	}
	return toks
}

func (c *c14Cluster) feed(seed, count int) string {
	w := c.w
	r := lib.NewRng(uint64(seed) + 5)
	w.mu.Lock()
	for j := 0; j < count; j++ {
		sp := r.Intn(len(w.splits))
		w.splits[sp] = append(w.splits[sp], r.Intn(w.cfg.nkeys))
	}
	w.mu.Unlock()
	deadline := time.Now().Add(2 * c01Grace)
	for time.Now().Before(deadline) && !w.quiescent() {
		time.Sleep(300 * time.Microsecond)
	}
	c.absorb()
	if c.problem != "" {
		return c.problem
	}
	if !w.quiescent() {
		return "not-quiescent"
	}
	return "ok"
}

func (c *c14Cluster) round(seed int) bool {
	w := c.w
	r := lib.NewRng(uint64(seed) + 77)
	w.mu.Lock()
	n := w.cfg.n
	w.mu.Unlock()
	for i := 0; i < n; i++ {
		if !w.releaseAck('r', r.Intn(8), 4*c01GateGrace) {
			return false
		}
	}
	for i := 0; i < n; i++ {
		if !w.releaseAck('o', r.Intn(8), 4*c01GateGrace) {
			return false
		}
	}
	return w.publish(0, 4*c01GateGrace)
}

func (c *c14Cluster) savepoint(seed int, fold bool) string {
	w := c.w
	w.mu.Lock()
	job := w.job
	w.mu.Unlock()
	var tickID uint64
	if fold {
		w.tickNoTake() // a periodic checkpoint is started: its barriers are on their way
		if id, _, _, ok := job.VerifStoreC15().VerifPendingC15(); ok {
			tickID = id
		} else {
			return "fold-no-pending-checkpoint"
		}
	}
	id, err := job.HandleCreateSavepoint(context.Background())
	if err != nil {
		return "create-savepoint-error " + c14Short(err.Error())
	}
	if fold && id != tickID {
		return fmt.Sprintf("savepoint-did-not-fold got=%d pending=%d", id, tickID)
	}
	if !c.round(seed) {
		c.absorb()
		return "savepoint-round-incomplete"
	}
	deadline := time.Now().Add(2 * c01Grace)
	var uri string
	for {
		uri, err = job.HandleGetSavepointURI(context.Background(), id)
		if err == nil || time.Now().After(deadline) {
			break
		}
		time.Sleep(500 * time.Microsecond)
	}
	toks := c.absorb()
	if err != nil {
		return "no-savepoint-uri " + c14Short(err.Error())
	}
	c.spID, c.spURI = id, uri
	// the cut: the cursors the runners acknowledged for this checkpoint
	w.mu.Lock()
	c.cut = make([]int, w.cfg.nsplits)
	w.mu.Unlock()
	seen := 0
	for _, t := range toks {
		// b:<r>:<id>:<sp=c,...>
		p := strings.SplitN(t, ":", 4)
		if len(p) == 4 && p[0] == "b" && p[2] == strconv.FormatUint(id, 10) {
			seen++
			for _, kv := range strings.Split(p[3], ",") {
				if a, b, ok := strings.Cut(kv, "="); ok {
					sp, _ := strconv.Atoi(a)
					cur, _ := strconv.Atoi(b)
					if sp >= 0 && sp < len(c.cut) {
						c.cut[sp] = cur
					}
				}
			}
		}
	}
	if seen != c.n {
		return fmt.Sprintf("runner-acks-seen=%d want=%d", seen, c.n)
	}
	c.pre = map[int][]string{}
	for _, t := range c.run1 {
		head, _, _ := strings.Cut(t, "|")
		p := strings.Split(head, ":")
		sp, _ := strconv.Atoi(p[2])
		idx, _ := strconv.Atoi(p[3])
		k, _ := strconv.Atoi(p[4])
		if idx < c.cut[sp] {
			c.pre[k] = append(c.pre[k], fmt.Sprintf("%d.%d", sp, idx))
		}
	}
	if c.problem != "" {
		return c.problem
	}
	return "savepoint ok"
}

func (c *c14Cluster) restart(m int, wipe bool) string {
	w := c.w
	if c.spURI == "" {
		return "no-savepoint"
	}
	// every process ends (the job first: its pending writes and the calls into it fail)
	w.mu.Lock()
	w.jobDown = true
	w.jobRestart = true
	after := w.dep
	for _, pw := range w.writes {
		pw.release <- false
	}
	w.writes = nil
	w.dropAcksLocked(nil)
	ws := append([]*c01Worker(nil), w.workers...)
	w.mu.Unlock()
	for _, wk := range ws {
		if !wk.killed.Swap(true) {
			func() {
				defer func() { recover() }()
				if db := wk.w.Operator.VerifDB(); db != nil {
					db.WaitOnTasks()
				}
			}()
			w.mu.Lock()
			w.dropAcksLocked(wk)
			w.mu.Unlock()
			func() {
				defer func() { recover() }()
				wk.w.Halt()
			}()
		}
	}
	// in one process "halted" is a flag: a retention update of the old job that had already entered an old operator
	// still runs to its end (it rewrites that operator's document and deletes WALs); let it finish before the
	// working storage is wiped and restored
	time.Sleep(25 * time.Millisecond)
	if wipe {
		ents, _ := os.ReadDir(w.dir)
		for _, e := range ents {
			if e.Name() != "savepoints" {
				os.RemoveAll(filepath.Join(w.dir, e.Name()))
			}
		}
	}
	c.absorb()
	c.restored = true
	c.post = map[int][]string{}
	if err := c14ClusterNewJob(w, m, c.spURI); err != nil {
		return "start-from-savepoint-failed " + c14Short(err.Error())
	}
	// read everything the restored handles reference in the foreground first: a real operator reads tables from its
	// event loop and compacts in the background, where a missing file would take the whole process down
	w.mu.Lock()
	job := w.job
	w.mu.Unlock()
	if ck := job.VerifStoreC15().CurrentCheckpoint(); ck != nil {
		for _, o := range ck.GetOperatorCheckpoints() {
			c.scratch++
			res := func() (res string) {
				defer func() {
					if p := recover(); p != nil {
						res = "panic " + c14Short(fmt.Sprint(p))
					}
				}()
				db := dkv.Open(dkv.DBOptions{FileSystem: storage.NewLocalFilesystem(filepath.Join(w.dir, fmt.Sprintf("scratch-%d", c.scratch)))},
					[]recovery.CheckpointHandle{{CheckpointID: o.CheckpointId, URI: o.DkvFileUri}})
				c.keep = append(c.keep, db)
				return c14Scan(db)
			}()
			if strings.HasPrefix(res, "panic") || strings.HasPrefix(res, "error") {
				return "restored-state-unreadable " + o.OperatorId + ": " + res
			}
		}
	} else {
		return "no-checkpoint-loaded-from-savepoint"
	}
	for i := 0; i < m; i++ {
		w.newWorker()
	}
	time.Sleep(time.Millisecond)
	w.heartbeat()
	running := w.waitRunning(after)
	toks := c.absorb()
	if !running {
		return "not-running-after-restart " + c14Short(strings.Join(toks, " "))
	}
	// R:<n>:<ck>:<c0.c1...>:<j|w>
	cs := make([]string, len(c.cut))
	for i, v := range c.cut {
		cs[i] = strconv.Itoa(v)
	}
	want := fmt.Sprintf("R:%d:%d:%s:j", m, c.spID, strings.Join(cs, "."))
	for _, t := range toks {
		if strings.HasPrefix(t, "R:") || strings.HasPrefix(t, "L:") {
			if t != want {
				return "restored-from " + t + " want " + want
			}
			if c.problem != "" {
				return c.problem
			}
			return "restored ok"
		}
	}
	return "no-deployment-event " + c14Short(strings.Join(toks, " "))
}

func c14ClusterImpl(c lib.Case) []string {
	c01Serial.Lock()
	defer c01Serial.Unlock()
	hv := map[string]int{"n": 1, "kgc": 8, "splits": 2, "keys": 5, "rot": 0}
	for _, f := range strings.Fields(c.Header) {
		if k, v, ok := strings.Cut(f, "="); ok {
			if x, err := strconv.Atoi(v); err == nil {
				hv[k] = x
			}
		}
	}
	w, err := newC01World(hv["n"], hv["kgc"], hv["splits"], 3, 2, hv["keys"], hv["rot"])
	if err != nil {
		return []string{"setup-error " + err.Error()}
	}
	defer w.close()
	// the job's file store is the working directory itself, as in a local deployment: DKV URIs are readable by it
	w.loc.loc = locations.NewLocalDirectory(w.dir)
	if err := c14ClusterNewJob(w, hv["n"], ""); err != nil {
		return []string{"setup-error " + err.Error()}
	}
	cl := &c14Cluster{w: w, n: hv["n"], pre: map[int][]string{}, post: map[int][]string{}}
	out := make([]string, 0, len(c.Ops))
	atoi := func(s string) int { n, _ := strconv.Atoi(s); return n }
	for _, line := range c.Ops {
		a := strings.Fields(line)
		o := "bad-op"
		switch {
		case len(a) == 1 && a[0] == "boot":
			for i := 0; i < cl.n; i++ {
				w.newWorker()
			}
			if w.waitRunning(0) {
				o = "running"
			} else {
				o = "not-running"
			}
			cl.absorb()
		case len(a) == 3 && a[0] == "feed":
			o = cl.feed(atoi(a[1]), atoi(a[2]))
		case len(a) == 2 && a[0] == "ckpt":
			w.tickNoTake()
			if cl.round(atoi(a[1])) {
				o = "done"
			} else {
				o = "incomplete"
			}
			cl.absorb()
		case (len(a) == 2 || len(a) == 3) && a[0] == "savepoint":
			o = cl.savepoint(atoi(a[1]), len(a) == 3 && a[2] == "fold")
		case len(a) == 3 && a[0] == "restart":
			o = cl.restart(atoi(a[1]), a[2] == "wipe")
			if o == "restored ok" {
				cl.n = atoi(a[1])
			}
		}
		out = append(out, o)
	}
	return out
}

func c14ClusterGen(r *lib.Rng) lib.Case {
	n := r.Range(1, 3)
	m := n
	if r.Chance(1, 3) {
		m = r.Range(1, 3)
	}
	ops := []string{"boot", fmt.Sprintf("feed %d %d", r.Intn(1000), r.Range(3, 25))}
	if r.Chance(1, 2) {
		ops = append(ops, fmt.Sprintf("ckpt %d", r.Intn(100)), fmt.Sprintf("feed %d %d", r.Intn(1000), r.Range(1, 15)))
	}
	sp := fmt.Sprintf("savepoint %d", r.Intn(100))
	if r.Chance(1, 3) {
		sp += " fold"
	}
	ops = append(ops, sp)
	if r.Chance(1, 2) {
		// the job runs on after the savepoint: none of this may show after the restart
		ops = append(ops, fmt.Sprintf("feed %d %d", r.Intn(1000), r.Range(1, 12)))
		if r.Chance(1, 2) {
			ops = append(ops, fmt.Sprintf("ckpt %d", r.Intn(100)))
		}
	}
	how := "wipe"
	if r.Chance(1, 4) {
		how = "keep"
	}
	ops = append(ops, fmt.Sprintf("restart %d %s", m, how), fmt.Sprintf("feed %d %d", r.Intn(1000), r.Range(4, 25)))
	tags := []string{"cluster"}
	if m != n {
		tags = append(tags, "cluster-rescale")
	}
	return lib.Case{Header: fmt.Sprintf("M C14 mode=cluster n=%d kgc=%d splits=%d keys=%d rot=%d", n, lib.Pick(r, []int{4, 8, 16}), r.Range(1, 3), r.Range(2, 6), lib.Pick(r, []int{0, 0, 2})),
		Ops: ops, Tags: tags}
}
