package main

// C14 cluster mode (header `M C14 mode=cluster ...`): the savepoint path END TO END on the real components —
// the REAL jobs.Job (HandleCreateSavepoint, HandleGetSavepointURI, jobs.New{SavepointURI}) with its real
// snapshots.Store on a real locations.LocalDirectory, REAL workers (SourceRunner + Operator + DKV on the same
// directory, Operator.HandleDeploy from the restored handles), wired by the C01 mini-cluster adapters
// (c01_cluster.go: scripted source, reference handler whose per-key state is the list of records it has handled,
// gated acknowledgements and job snapshot writes).
//
// Ops are theorem instances evaluated on the implementation (the driver answers the constant the theorems give):
//   boot                 the job deploys its assembly                                     -> running
//   feed <seed> <count>  records are made available and handled                          -> ok
//   ckpt <seed>          one periodic checkpoint round                                    -> done
//   savepoint <seed> [fold]  Job.HandleCreateSavepoint (fold: while a periodic checkpoint is in progress: the same
//                        id must be returned and no second round started), acknowledgements, publication, then
//                        Job.HandleGetSavepointURI succeeds                               -> savepoint ok
//   restart <m> <wipe|keep>  all processes end, (wipe: every file outside savepoints/ is deleted,) a new job is
//                        started with SavepointURI and m workers. P-obs: it deploys from the savepoint's checkpoint
//                        id with exactly the source cursors the runners acknowledged for it -> restored ok
//   feed ... after a restart additionally checks every handler invocation: the state the handler is given for a
//                        key is exactly the records of that key before the savepoint's cut (in their original
//                        order) followed by those handled since the restart (C14 "same operator state"; with
//                        m != n through the rescale path of C06).
// Timers are not exercised (the reference handler sets none).

import (
	"context"
	"fmt"
	"log/slog"
	"os"
	"path/filepath"
	"strconv"
	"strings"
	"time"

	"google.golang.org/protobuf/types/known/timestamppb"
	"reduction.dev/reduction-protocol/handlerpb"
	"reduction.dev/reduction-protocol/jobconfigpb"
	"reduction.dev/reduction/batching"
	"reduction.dev/reduction/config"
	"reduction.dev/reduction/connectors"
	"reduction.dev/reduction/dkv"
	"reduction.dev/reduction/dkv/recovery"
	"reduction.dev/reduction/dkv/storage"
	"reduction.dev/reduction/jobs"
	"reduction.dev/reduction/proto"
	"reduction.dev/reduction/proto/jobpb"
	"reduction.dev/reduction/storage/locations"
	"reduction.dev/reduction/workers"

	"verif/harness/lib"
)

type c14Cluster struct {
	w         *c01World
	n         int
	spID      uint64
	spURI     string
	cut       []int            // source cursor per split at the savepoint
	run1      []string         // d: tokens of the run the savepoint was taken in, in order
	pre       map[int][]string // per key: records before the cut, in the order they were handled
	post      map[int][]string // per key: records handled since the restart
	restored  bool
	problem   string
	timers    bool
	regPre    map[string]bool   // timers (key:ts) set by records before the cut
	regRun1   map[string][3]int // timers set in the first run: key:ts -> (split, index, key)
	regPost   map[string]bool   // timers set since the restart
	firedPre  map[string]bool   // timers that fired before the owning operator's checkpoint for the savepoint
	firedPost map[string]bool
	timeline  []string        // first run: T: and c: tokens in order
	regSure   map[string]bool // first run: timers that were certainly above the watermark when set
	maxEvent  int
	scratch   int
	keep      []any
}

func c14ClusterNewJob(w *c01World, n int, savepointURI string) error {
	w.mu.Lock()
	w.jobGen++
	gen := w.jobGen
	w.mu.Unlock()
	clk := newC01Clock()
	quiet := slog.New(slog.NewTextHandler(c01Discard{}, nil))
	job, err := jobs.New(&jobs.NewParams{
		JobConfig: &config.Config{WorkerCount: n, KeyGroupCount: w.cfg.kgc, WorkingStorageLocation: w.dir,
			Sources: []connectors.SourceConfig{c01Source{w}}},
		SavepointURI:      savepointURI,
		Clock:             clk,
		HeartbeatDeadline: c01Heartbeat * time.Second,
		Store:             &c01Loc{w: w, gen: gen, mu: w.loc.mu, loc: w.loc.loc},
		Logger:            quiet,
		OperatorFactory:   w.opFactory,
		SourceRunnerFactory: func(node *jobpb.NodeIdentity) proto.SourceRunner {
			w.mu.Lock()
			t := w.byID[node.Id]
			w.mu.Unlock()
			if t == nil {
				panic("c14: unknown source runner " + node.Id)
			}
			return &c01SrClient{w: w, target: t}
		},
		ErrChan: w.errCh,
	})
	if err != nil {
		return err
	}
	w.mu.Lock()
	w.tickSeen = map[uint64]bool{}
	w.job, w.jclk, w.jobDown = job, clk, false
	w.cfg.n = n
	w.mu.Unlock()
	return nil
}

// absorb reads the event tokens produced since the last call
func (c *c14Cluster) absorb() []string {
	toks := strings.Fields(c.w.take())
	if os.Getenv("C14_TOKENS") != "" {
		fmt.Fprintln(os.Stderr, "TOK", strings.Join(toks, " "))
	}
	for _, t := range toks {
		if strings.HasPrefix(t, "!") || strings.HasPrefix(t, "sa:") {
			if c.problem == "" {
				c.problem = "event " + t
			}
		}
		if !c.restored && (strings.HasPrefix(t, "T:") || strings.HasPrefix(t, "c:")) {
			c.timeline = append(c.timeline, t)
		}
		if strings.HasPrefix(t, "T:") && c.restored {
			// T:<o>:<k>:<ts>  the handler of operator o was told that the timer ts of key k expired
			if p := strings.Split(t, ":"); len(p) == 4 {
				id := p[2] + ":" + p[3]
				switch {
				case c.firedPre[id]:
					c.fail("timer " + id + " fired before the savepoint and again after the restart")
				case c.firedPost[id]:
					c.fail("timer " + id + " fired twice after the restart")
				case !c.regPre[id] && !c.regPost[id]:
					c.fail("timer " + id + " fired after the restart but was set neither before the savepoint's cut nor since")
				}
				if c.regPre[id] && !c.regPost[id] {
					c14StatMu.Lock()
					c14Stat["cluster_timers_pending_at_savepoint_fired_after_restart"]++
					c14StatMu.Unlock()
				}
				c.firedPost[id] = true
			}
		}
		if !strings.HasPrefix(t, "d:") {
			continue
		}
		// d:<o>:<sp>:<i>:<k>|<st>
		head, st, _ := strings.Cut(t, "|")
		p := strings.Split(head, ":")
		if len(p) != 5 {
			continue
		}
		sp, _ := strconv.Atoi(p[2])
		idx, _ := strconv.Atoi(p[3])
		k, _ := strconv.Atoi(p[4])
		tid := fmt.Sprintf("%d:%d", k, c14TimerOf(sp, idx))
		if !c.restored {
			c.run1 = append(c.run1, t)
			c.regRun1[tid] = [3]int{sp, idx, k}
			// a timer at or below the watermark is not set (TimerRegistry.SetTimer's guard, C10/C11). The watermark never
			// exceeds the largest event time handed out so far, so a timer above that was certainly set.
			if c14TimerOf(sp, idx) > c.maxEvent {
				c.regSure[tid] = true
			}
			if et := c14EventTime(sp, idx); et > c.maxEvent {
				c.maxEvent = et
			}
			continue
		}
		c.regPost[tid] = true
		want := strings.Join(append(append([]string{}, c.pre[k]...), c.post[k]...), ",")
		if want == "" {
			want = "-"
		}
		if st != want && c.problem == "" {
			c.problem = fmt.Sprintf("state-of-key-%d-after-restore given=[%s] want=[%s] at record %d.%d", k, st, want, sp, idx)
		}
		c.post[k] = append(c.post[k], fmt.Sprintf("%d.%d", sp, idx))
	}
	return toks
}

func (c *c14Cluster) fail(s string) {
	if c.problem == "" {
		c.problem = s
	}
}

// the event time of record idx of split sp (seconds after the epoch), and the timer its handler sets
func c14EventTime(sp, idx int) int { return idx*8 + sp + 1 }
func c14TimerOf(sp, idx int) int   { return c14EventTime(sp, idx) + 20 }

// c14Handler is the C01 reference handler plus event-time timers: every record carries an event time and its handler
// sets one timer; expirations the handler is told are logged
type c14Handler struct {
	inner *c01Handler
}

func (h *c14Handler) KeyEventBatch(ctx context.Context, events [][]byte) ([][]*handlerpb.KeyedEvent, error) {
	out, err := h.inner.KeyEventBatch(ctx, events)
	for i, e := range events {
		parts := strings.Split(string(e), ":")
		if len(parts) == 3 && i < len(out) {
			sp, _ := strconv.Atoi(parts[0])
			idx, _ := strconv.Atoi(parts[1])
			for _, ke := range out[i] {
				ke.Timestamp = timestamppb.New(time.Unix(int64(c14EventTime(sp, idx)), 0))
			}
		}
	}
	return out, err
}

func (h *c14Handler) ProcessEventBatch(ctx context.Context, req *handlerpb.ProcessEventBatchRequest) (*handlerpb.ProcessEventBatchResponse, error) {
	w := h.inner.w
	timers := map[string][]*timestamppb.Timestamp{}
	w.mu.Lock()
	zombie := h.inner.wk.killed.Load()
	for _, ev := range req.Events {
		if te := ev.GetTimerExpired(); te != nil && !zombie {
			w.log("T:%d:%d:%d", h.inner.wk.opIdx, c01KeyID(te.Key), te.Timestamp.AsTime().Unix())
		}
		if ke := ev.GetKeyedEvent(); ke != nil {
			parts := strings.Split(string(ke.Value), ":")
			if len(parts) == 3 {
				sp, _ := strconv.Atoi(parts[0])
				idx, _ := strconv.Atoi(parts[1])
				timers[string(ke.Key)] = append(timers[string(ke.Key)], timestamppb.New(time.Unix(int64(c14TimerOf(sp, idx)), 0)))
			}
		}
	}
	w.mu.Unlock()
	resp, err := h.inner.ProcessEventBatch(ctx, req)
	if err == nil && resp != nil {
		for _, kr := range resp.KeyResults {
			kr.NewTimers = append(kr.NewTimers, timers[string(kr.Key)]...)
		}
	}
	return resp, err
}

// c14NewWorker is c01World.newWorker with the timer-setting handler
func c14NewWorker(w *c01World) *c01Worker {
	w.mu.Lock()
	num := len(w.workers)
	wk := &c01Worker{num: num, world: w, clk: newC01Clock(), opIdx: -1, srIdx: -1,
		opID: fmt.Sprintf("w%03d-op", num), srID: fmt.Sprintf("w%03d-sr", num)}
	w.workers = append(w.workers, wk)
	w.byID[wk.opID] = wk
	w.byID[wk.srID] = wk
	w.mu.Unlock()
	h := &c14Handler{inner: &c01Handler{w: w, wk: wk}}
	wk.w = workers.VerifNewC01(workers.NewParams{
		Host:            "h",
		Handler:         h,
		Job:             &c01JobClient{w: w, wk: wk},
		Clock:           wk.clk,
		OperatorFactory: w.opFactory,
		EventBatching:   batching.EventBatcherParams{MaxDelay: time.Millisecond, MaxSize: w.cfg.batch},
	}, wk.opID, wk.srID, func(*jobconfigpb.Source) connectors.SourceReader {
		w.mu.Lock()
		defer w.mu.Unlock()
		return &c01Reader{w: w, wk: wk, dep: w.dep + 1, cur: map[int]int{}}
	})
	wk.w.Operator.Logger = slog.New(slog.NewTextHandler(c01Discard{}, nil))
	wk.w.SourceRunner.Logger = slog.New(slog.NewTextHandler(c01Discard{}, nil))
	ctx, cancel := context.WithCancel(context.Background())
	wk.cancel = cancel
	go func() {
		func() {
			defer func() { recover() }()
			wk.w.Start(ctx)
		}()
		w.mu.Lock()
		if !wk.killed.Load() {
			wk.killed.Store(true)
			w.log("x:%d", wk.num)
			w.dropAcksLocked(wk)
		}
		w.mu.Unlock()
	}()
	return wk
}

func (c *c14Cluster) spawn() {
	if c.timers {
		c14NewWorker(c.w)
	} else {
		c.w.newWorker()
	}
}

func (c *c14Cluster) feed(seed, count int) string {
	w := c.w
	r := lib.NewRng(uint64(seed) + 5)
	w.mu.Lock()
	for j := 0; j < count; j++ {
		sp := r.Intn(len(w.splits))
		w.splits[sp] = append(w.splits[sp], r.Intn(w.cfg.nkeys))
	}
	w.mu.Unlock()
	deadline := time.Now().Add(2 * c01Grace)
	for time.Now().Before(deadline) && !w.quiescent() {
		time.Sleep(300 * time.Microsecond)
	}
	if c.timers {
		// the source runners send watermarks from a real 200 ms ticker: give timers the chance to fire
		time.Sleep(260 * time.Millisecond)
	}
	c.absorb()
	if c.problem != "" {
		return c.problem
	}
	if !w.quiescent() {
		return "not-quiescent"
	}
	return "ok"
}

// timersDue: every timer that was pending at the savepoint and lies well below what every source has since delivered
// must have fired after the restart (bounded wait: watermarks come from a real 200 ms ticker)
func (c *c14Cluster) timersDue() string {
	if !c.timers || !c.restored {
		return "ok"
	}
	w := c.w
	w.mu.Lock()
	minLast := -1
	for sp := range w.splits {
		last := c14EventTime(sp, len(w.splits[sp])-1)
		if len(w.splits[sp]) == 0 {
			last = 0
		}
		if minLast < 0 || last < minLast {
			minLast = last
		}
	}
	runnersHaveSplits := w.cfg.nsplits >= w.cfg.n
	w.mu.Unlock()
	if !runnersHaveSplits {
		return "ok" // a runner without a split never reports a watermark: nothing is due
	}
	deadline := time.Now().Add(3 * time.Second)
	for {
		c.absorb()
		missing := ""
		for id := range c.regPre {
			ts, _ := strconv.Atoi(id[strings.Index(id, ":")+1:])
			if c.regSure[id] && !c.firedPre[id] && !c.firedPost[id] && ts <= minLast-40 {
				missing = id
				break
			}
		}
		if c.problem != "" {
			return c.problem
		}
		if missing == "" {
			return "ok"
		}
		if time.Now().After(deadline) {
			return "timer " + missing + " was pending at the savepoint and never fired after the restart"
		}
		time.Sleep(50 * time.Millisecond)
	}
}

func (c *c14Cluster) round(seed int) bool {
	w := c.w
	r := lib.NewRng(uint64(seed) + 77)
	w.mu.Lock()
	n := w.cfg.n
	w.mu.Unlock()
	for i := 0; i < n; i++ {
		if !w.releaseAck('r', r.Intn(8), 4*c01GateGrace) {
			return false
		}
	}
	for i := 0; i < n; i++ {
		if !w.releaseAck('o', r.Intn(8), 4*c01GateGrace) {
			return false
		}
	}
	return w.publish(0, 4*c01GateGrace)
}

func (c *c14Cluster) savepoint(seed int, fold bool) string {
	w := c.w
	w.mu.Lock()
	job := w.job
	w.mu.Unlock()
	var tickID uint64
	if fold {
		w.tickNoTake() // a periodic checkpoint is started: its barriers are on their way
		if id, _, _, ok := job.VerifStoreC15().VerifPendingC15(); ok {
			tickID = id
		} else {
			return "fold-no-pending-checkpoint"
		}
	}
	id, err := job.HandleCreateSavepoint(context.Background())
	if err != nil {
		return "create-savepoint-error " + c14Short(err.Error())
	}
	if fold && id != tickID {
		return fmt.Sprintf("savepoint-did-not-fold got=%d pending=%d", id, tickID)
	}
	if !c.round(seed) {
		c.absorb()
		return "savepoint-round-incomplete"
	}
	deadline := time.Now().Add(2 * c01Grace)
	var uri string
	for {
		uri, err = job.HandleGetSavepointURI(context.Background(), id)
		if err == nil || time.Now().After(deadline) {
			break
		}
		time.Sleep(500 * time.Microsecond)
	}
	toks := c.absorb()
	if err != nil {
		return "no-savepoint-uri " + c14Short(err.Error())
	}
	c.spID, c.spURI = id, uri
	// the cut: the cursors the runners acknowledged for this checkpoint
	w.mu.Lock()
	c.cut = make([]int, w.cfg.nsplits)
	w.mu.Unlock()
	seen := 0
	for _, t := range toks {
		// b:<r>:<id>:<sp=c,...>
		p := strings.SplitN(t, ":", 4)
		if len(p) == 4 && p[0] == "b" && p[2] == strconv.FormatUint(id, 10) {
			seen++
			for _, kv := range strings.Split(p[3], ",") {
				if a, b, ok := strings.Cut(kv, "="); ok {
					sp, _ := strconv.Atoi(a)
					cur, _ := strconv.Atoi(b)
					if sp >= 0 && sp < len(c.cut) {
						c.cut[sp] = cur
					}
				}
			}
		}
	}
	if seen != c.n {
		return fmt.Sprintf("runner-acks-seen=%d want=%d", seen, c.n)
	}
	c.pre = map[int][]string{}
	for _, t := range c.run1 {
		head, _, _ := strings.Cut(t, "|")
		p := strings.Split(head, ":")
		sp, _ := strconv.Atoi(p[2])
		idx, _ := strconv.Atoi(p[3])
		k, _ := strconv.Atoi(p[4])
		if idx < c.cut[sp] {
			c.pre[k] = append(c.pre[k], fmt.Sprintf("%d.%d", sp, idx))
		}
	}
	// timers: set by records before the cut; fired before the owning operator's checkpoint for the savepoint
	c.regPre, c.firedPre = map[string]bool{}, map[string]bool{}
	for tid, r := range c.regRun1 {
		if r[1] < c.cut[r[0]] {
			c.regPre[tid] = true
		}
	}
	cutDone := map[string]bool{}
	for _, t := range c.timeline {
		p := strings.Split(t, ":")
		if p[0] == "c" && len(p) == 3 && p[2] == strconv.FormatUint(id, 10) {
			cutDone[p[1]] = true
		}
		if p[0] == "T" && len(p) == 4 && !cutDone[p[1]] {
			c.firedPre[p[2]+":"+p[3]] = true
		}
	}
	if c.problem != "" {
		return c.problem
	}
	return "savepoint ok"
}

func (c *c14Cluster) restart(m int, wipe bool) string {
	w := c.w
	if c.spURI == "" {
		return "no-savepoint"
	}
	// every process ends (the job first: its pending writes and the calls into it fail)
	w.mu.Lock()
	w.jobDown = true
	w.jobRestart = true
	after := w.dep
	for _, pw := range w.writes {
		pw.release <- false
	}
	w.writes = nil
	w.dropAcksLocked(nil)
	ws := append([]*c01Worker(nil), w.workers...)
	w.mu.Unlock()
	for _, wk := range ws {
		if !wk.killed.Swap(true) {
			func() {
				defer func() { recover() }()
				if db := wk.w.Operator.VerifDB(); db != nil {
					db.WaitOnTasks()
				}
			}()
			w.mu.Lock()
			w.dropAcksLocked(wk)
			w.mu.Unlock()
			func() {
				defer func() { recover() }()
				wk.w.Halt()
			}()
		}
	}
	// in one process "halted" is a flag: a retention update of the old job that had already entered an old operator
	// still runs to its end (it rewrites that operator's document and deletes WALs); let it finish before the
	// working storage is wiped and restored
	time.Sleep(25 * time.Millisecond)
	if wipe {
		ents, _ := os.ReadDir(w.dir)
		for _, e := range ents {
			if e.Name() != "savepoints" {
				os.RemoveAll(filepath.Join(w.dir, e.Name()))
			}
		}
	}
	c.absorb()
	c.restored = true
	c.post = map[int][]string{}
	if err := c14ClusterNewJob(w, m, c.spURI); err != nil {
		return "start-from-savepoint-failed " + c14Short(err.Error())
	}
	// read everything the restored handles reference in the foreground first: a real operator reads tables from its
	// event loop and compacts in the background, where a missing file would take the whole process down
	w.mu.Lock()
	job := w.job
	w.mu.Unlock()
	if ck := job.VerifStoreC15().CurrentCheckpoint(); ck != nil {
		for _, o := range ck.GetOperatorCheckpoints() {
			c.scratch++
			res := func() (res string) {
				defer func() {
					if p := recover(); p != nil {
						res = "panic " + c14Short(fmt.Sprint(p))
					}
				}()
				db := dkv.Open(dkv.DBOptions{FileSystem: storage.NewLocalFilesystem(filepath.Join(w.dir, fmt.Sprintf("scratch-%d", c.scratch)))},
					[]recovery.CheckpointHandle{{CheckpointID: o.CheckpointId, URI: o.DkvFileUri}})
				c.keep = append(c.keep, db)
				return c14Scan(db)
			}()
			if strings.HasPrefix(res, "panic") || strings.HasPrefix(res, "error") {
				return "restored-state-unreadable " + o.OperatorId + ": " + res
			}
		}
	} else {
		return "no-checkpoint-loaded-from-savepoint"
	}
	for i := 0; i < m; i++ {
		c.spawn()
	}
	time.Sleep(time.Millisecond)
	w.heartbeat()
	running := w.waitRunning(after)
	toks := c.absorb()
	if !running {
		return "not-running-after-restart " + c14Short(strings.Join(toks, " "))
	}
	// R:<n>:<ck>:<c0.c1...>:<j|w>
	cs := make([]string, len(c.cut))
	for i, v := range c.cut {
		cs[i] = strconv.Itoa(v)
	}
	want := fmt.Sprintf("R:%d:%d:%s:j", m, c.spID, strings.Join(cs, "."))
	for _, t := range toks {
		if strings.HasPrefix(t, "R:") || strings.HasPrefix(t, "L:") {
			if t != want {
				return "restored-from " + t + " want " + want
			}
			if c.problem != "" {
				return c.problem
			}
			return "restored ok"
		}
	}
	return "no-deployment-event " + c14Short(strings.Join(toks, " "))
}

func c14ClusterImpl(c lib.Case) []string {
	c01Serial.Lock()
	defer c01Serial.Unlock()
	hv := map[string]int{"n": 1, "kgc": 8, "splits": 2, "keys": 5, "rot": 0}
	for _, f := range strings.Fields(c.Header) {
		if k, v, ok := strings.Cut(f, "="); ok {
			if x, err := strconv.Atoi(v); err == nil {
				hv[k] = x
			}
		}
	}
	w, err := newC01World(hv["n"], hv["kgc"], hv["splits"], 3, 2, hv["keys"], hv["rot"])
	if err != nil {
		return []string{"setup-error " + err.Error()}
	}
	defer w.close()
	// the job's file store is the working directory itself, as in a local deployment: DKV URIs are readable by it
	w.loc.loc = locations.NewLocalDirectory(w.dir)
	if err := c14ClusterNewJob(w, hv["n"], ""); err != nil {
		return []string{"setup-error " + err.Error()}
	}
	cl := &c14Cluster{w: w, n: hv["n"], pre: map[int][]string{}, post: map[int][]string{}, timers: hv["timers"] == 1,
		regSure: map[string]bool{}, regRun1: map[string][3]int{}, regPre: map[string]bool{}, regPost: map[string]bool{}, firedPre: map[string]bool{}, firedPost: map[string]bool{}}
	out := make([]string, 0, len(c.Ops))
	defer func() {
		if cl.timers {
			pend := 0
			for id := range cl.regPre {
				if !cl.firedPre[id] && cl.regSure[id] {
					pend++
				}
			}
			c14StatMu.Lock()
			c14Stat["cluster_timer_cases"]++
			c14Stat["cluster_timers_fired_before_savepoint"] += len(cl.firedPre)
			c14Stat["cluster_timers_pending_at_savepoint"] += pend
			c14Stat["cluster_timers_fired_after_restart"] += len(cl.firedPost)
			c14StatMu.Unlock()
			if os.Getenv("C14_DEBUG") != "" {
				fmt.Fprintf(os.Stderr, "timers: set-before-cut=%d fired-before=%d pending=%d fired-after-restart=%d set-after=%d\n", len(cl.regPre), len(cl.firedPre), pend, len(cl.firedPost), len(cl.regPost))
			}
		}
	}()
	atoi := func(s string) int { n, _ := strconv.Atoi(s); return n }
	booted := false
	for _, line := range c.Ops {
		a := strings.Fields(line)
		o := "bad-op"
		switch {
		case len(a) == 1 && a[0] == "boot":
			for i := 0; i < cl.n; i++ {
				cl.spawn()
			}
			if w.waitRunning(0) {
				o = "running"
				booted = true
			} else {
				o = "not-running"
			}
			cl.absorb()
		case !booted && (a[0] == "feed" || a[0] == "ckpt" || a[0] == "savepoint" || a[0] == "restart" || a[0] == "timersdue"):
			o = "not-booted"
		case len(a) == 3 && a[0] == "feed":
			o = cl.feed(atoi(a[1]), atoi(a[2]))
		case len(a) == 2 && a[0] == "ckpt":
			w.tickNoTake()
			if cl.round(atoi(a[1])) {
				o = "done"
			} else {
				o = "incomplete"
			}
			cl.absorb()
		case (len(a) == 2 || len(a) == 3) && a[0] == "savepoint":
			o = cl.savepoint(atoi(a[1]), len(a) == 3 && a[2] == "fold")
		case len(a) == 1 && a[0] == "timersdue":
			o = cl.timersDue()
		case len(a) == 3 && a[0] == "restart":
			o = cl.restart(atoi(a[1]), a[2] == "wipe")
			if o == "restored ok" {
				cl.n = atoi(a[1])
			}
		}
		out = append(out, o)
	}
	return out
}

func c14ClusterGen(r *lib.Rng) lib.Case {
	n := r.Range(1, 3)
	m := n
	if r.Chance(1, 3) {
		m = r.Range(1, 3)
	}
	ops := []string{"boot", fmt.Sprintf("feed %d %d", r.Intn(1000), r.Range(3, 25))}
	if r.Chance(1, 2) {
		ops = append(ops, fmt.Sprintf("ckpt %d", r.Intn(100)), fmt.Sprintf("feed %d %d", r.Intn(1000), r.Range(1, 15)))
	}
	sp := fmt.Sprintf("savepoint %d", r.Intn(100))
	if r.Chance(1, 3) {
		sp += " fold"
	}
	ops = append(ops, sp)
	if r.Chance(1, 2) {
		// the job runs on after the savepoint: none of this may show after the restart
		ops = append(ops, fmt.Sprintf("feed %d %d", r.Intn(1000), r.Range(1, 12)))
		if r.Chance(1, 2) {
			ops = append(ops, fmt.Sprintf("ckpt %d", r.Intn(100)))
		}
	}
	how := "wipe"
	if r.Chance(1, 4) {
		how = "keep"
	}
	ops = append(ops, fmt.Sprintf("restart %d %s", m, how), fmt.Sprintf("feed %d %d", r.Intn(1000), r.Range(4, 25)))
	tags := []string{"cluster"}
	timers := 0
	if r.Chance(1, 5) {
		// the handler sets event-time timers: those pending at the savepoint fire exactly once after the restart
		timers = 1
		tags = append(tags, "cluster-timers")
		ops = append(ops, fmt.Sprintf("feed %d %d", r.Intn(1000), r.Range(20, 30)), "timersdue")
	}
	if m != n {
		tags = append(tags, "cluster-rescale")
	}
	return lib.Case{Header: fmt.Sprintf("M C14 mode=cluster n=%d kgc=%d splits=%d keys=%d rot=%d timers=%d", n, lib.Pick(r, []int{4, 8, 16}), r.Range(1, 3), r.Range(2, 6), lib.Pick(r, []int{0, 0, 2}), timers),
		Ops: ops, Tags: tags}
}
