package main

import (
	"bytes"
	"context"
	"crypto/sha256"
	"encoding/hex"
	"encoding/json"
	"fmt"
	"log/slog"
	"os"
	"runtime"
	"slices"
	"strconv"
	"strings"
	"sync"
	"sync/atomic"
	"time"

	"reduction.dev/reduction/dkv"
	"reduction.dev/reduction/dkv/kv"
	"reduction.dev/reduction/dkv/recovery"
	"reduction.dev/reduction/dkv/sst"
	"reduction.dev/reduction/dkv/storage"
	"reduction.dev/reduction/util/verifhook"
	"verif/harness/lib"
)

func init() { register("C08", propC08) }

// ---- a file system that can die with its process ----

// c08FS delegates to a shared in-memory file system until it is killed; afterwards every save and
// delete issued through it (zombie background tasks, table cleanups of the abandoned instance) is
// dropped, as it would be for a crashed process.
type c08FS struct {
	inner   storage.FileSystem
	scratch storage.FileSystem // where a dead instance's writes end up (nobody else reads it)
	dead    *atomic.Bool
	gate    atomic.Pointer[c08Gate]
	delGate atomic.Pointer[c08Gate] // holds back the first deletion of a WAL file (the loop at the end of Save)
}

func (f *c08FS) armDelGate() *c08Gate {
	g := &c08Gate{reached: make(chan struct{}), open: make(chan struct{})}
	g.armed.Store(true)
	f.delGate.Store(g)
	return g
}

func (f *c08FS) atDelete(name string) {
	if g := f.delGate.Load(); g != nil && strings.HasSuffix(name, ".wal") && g.armed.CompareAndSwap(true, false) {
		close(g.reached)
		<-g.open
	}
}

// c08Gate holds back one Save of the `checkpoints` file: the writer announces itself on reached and waits for open.
type c08Gate struct {
	armed   atomic.Bool
	reached chan struct{}
	open    chan struct{}
}

func (f *c08FS) armGate() *c08Gate {
	g := &c08Gate{reached: make(chan struct{}), open: make(chan struct{})}
	g.armed.Store(true)
	f.gate.Store(g)
	return g
}

func newC08FS(inner storage.FileSystem, dead bool) *c08FS {
	f := &c08FS{inner: inner, scratch: storage.NewMemoryFilesystem(), dead: &atomic.Bool{}}
	f.dead.Store(dead)
	return f
}

func (f *c08FS) New(path string) storage.File {
	return &c08NewFile{fs: f, proto: f.inner.New(path)}
}
func (f *c08FS) Open(path string) storage.File {
	return &c08File{File: f.inner.Open(path), dead: f.dead, fs: f}
}
func (f *c08FS) Copy(src, dst string) error {
	if f.dead.Load() {
		return nil
	}
	return f.inner.Copy(src, dst)
}

// c08File wraps a file opened for reading.
type c08File struct {
	storage.File
	dead *atomic.Bool
	fs   *c08FS
}

func (f *c08File) Delete() error {
	f.fs.atDelete(f.File.Name())
	if f.dead.Load() {
		return nil
	}
	return f.File.Delete()
}

func (f *c08File) CreateDeleteFunc() func() error {
	inner := f.File.CreateDeleteFunc()
	dead := f.dead
	return func() error {
		if dead.Load() {
			return nil
		}
		return inner()
	}
}

// c08NewFile buffers a file being written and publishes it on Save: to the shared file system while
// the instance is alive, to a private scratch file system once it is dead (the zombie can still read
// its own file back, nobody else sees it).
type c08NewFile struct {
	fs    *c08FS
	proto storage.File // never saved: provides name and URI
	mu    sync.Mutex
	buf   []byte
	saved storage.File
}

func (f *c08NewFile) Write(p []byte) (int, error) {
	f.mu.Lock()
	defer f.mu.Unlock()
	f.buf = append(f.buf, p...)
	return len(p), nil
}

func (f *c08NewFile) Save() error {
	if g := f.fs.gate.Load(); g != nil && f.proto.Name() == "checkpoints" && g.armed.CompareAndSwap(true, false) {
		close(g.reached)
		<-g.open
	}
	f.mu.Lock()
	defer f.mu.Unlock()
	target := f.fs.inner
	if f.fs.dead.Load() {
		target = f.fs.scratch
	}
	g := target.New(f.proto.URI())
	if _, err := g.Write(f.buf); err != nil {
		return err
	}
	if err := g.Save(); err != nil {
		return err
	}
	f.saved = g
	return nil
}

func (f *c08NewFile) ReadAt(p []byte, off int64) (int, error) {
	f.mu.Lock()
	g := f.saved
	f.mu.Unlock()
	if g == nil {
		panic("tried to read from a write only file")
	}
	return g.ReadAt(p, off)
}

func (f *c08NewFile) Name() string { return f.proto.Name() }
func (f *c08NewFile) URI() string  { return f.proto.URI() }
func (f *c08NewFile) Size() int64 {
	f.mu.Lock()
	defer f.mu.Unlock()
	return int64(len(f.buf))
}

func (f *c08NewFile) Delete() error {
	f.fs.atDelete(f.proto.Name())
	if f.fs.dead.Load() {
		return nil
	}
	return f.fs.inner.Open(f.proto.URI()).Delete()
}

func (f *c08NewFile) CreateDeleteFunc() func() error {
	inner := f.proto.CreateDeleteFunc()
	dead := f.fs.dead
	return func() error {
		if dead.Load() {
			return nil
		}
		return inner()
	}
}

// ---- scheduler: the C07 scheduler plus the two asynchronous halves of DB.Checkpoint ----

type c08Sched struct {
	*dkvSched
	ck map[uint64]*parkedTask
}

func (s *c08Sched) handler(label string, payload []any) {
	if len(payload) == 0 || payload[0] != any(s.db) {
		return
	}
	switch label {
	case "dkv.checkpoint.savewal", "dkv.checkpoint.savedoc":
		id, _ := payload[1].(uint64)
		s.mu.Lock()
		if s.free {
			s.mu.Unlock()
			return
		}
		t := &parkedTask{label: label, payload: payload, resume: make(chan struct{})}
		s.ck[id] = t
		s.mu.Unlock()
		<-t.resume
	case "dkv.checkpoint.captured":
	default:
		s.dkvSched.handler(label, payload)
	}
}

func (s *c08Sched) waitCk(id uint64, label string) bool {
	deadline := time.Now().Add(schedGrace)
	for {
		s.mu.Lock()
		t := s.ck[id]
		s.mu.Unlock()
		if t != nil && t.label == label {
			return true
		}
		if time.Now().After(deadline) {
			return false
		}
		time.Sleep(20 * time.Microsecond)
	}
}

func (s *c08Sched) releaseCk(id uint64) {
	s.mu.Lock()
	t := s.ck[id]
	delete(s.ck, id)
	s.mu.Unlock()
	if t != nil {
		close(t.resume)
	}
}

func (s *c08Sched) freeEverything() {
	s.mu.Lock()
	cks := s.ck
	s.ck = map[uint64]*parkedTask{}
	s.mu.Unlock()
	s.freeAll()
	for _, t := range cks {
		close(t.resume)
	}
}

// c08LogHandler turns every log record the database emits into a scheduling point: while a `ckptrace` operation is
// armed, the first record lets the flush commit that is parked at its hook land — right where the log call stands in
// the code, e.g. between two steps of DB.Checkpoint that are meant to be one. Otherwise it discards the record.
type c08LogHandler struct{ r *c08Run }

func (h *c08LogHandler) Enabled(context.Context, slog.Level) bool { return true }
func (h *c08LogHandler) WithAttrs([]slog.Attr) slog.Handler       { return h }
func (h *c08LogHandler) WithGroup(string) slog.Handler            { return h }
func (h *c08LogHandler) Handle(context.Context, slog.Record) error {
	r := h.r
	if !r.raceArmed.CompareAndSwap(true, false) {
		return nil
	}
	r.s.release("flush")
	if r.s.waitEvent("dkv.flush.done") != "timeout" {
		r.raceFired = true
	}
	return nil
}

// ---- one trace ----

type c08Cfg struct {
	c07Cfg
	wal int
}

type c08Wait func() (recovery.CheckpointHandle, error)

type c08Run struct {
	cfg      c08Cfg
	base     *storage.MemoryFilesystem
	root     string
	dirN     int
	dir      string
	fs       *c08FS
	db       *dkv.DB
	s        *c08Sched
	flushQ   int
	compactQ int
	waits    map[uint64]c08Wait
	phase    map[uint64]int // 0 captured, 1 WAL saved
	lineage  []uint64
	handles  map[uint64]recovery.CheckpointHandle
	uriID    map[string]int
	snap     map[uint64]map[string]string
	corrupt  string
	usedIDs  []uint64 // checkpoint ids used by the running instance
	probes   []chan struct{} // NeedsTable calls waiting for the list mutex
	raceArmed atomic.Bool    // the next log record of the database releases the parked flush commit
	raceFired bool
	freeStart bool    // the next instance starts with a scheduler that parks nothing
	freeMode  bool    // the running instance was started that way: only reads are compared from here on
	held     *c08Held
	// the handles the user holds (they survive reopen), the directory number of each handle's document, and the
	// handles older than a checkpoint the database was reopened from (D50 situation) — mirrors Ckpt.stepSpec
	user    map[uint64]recovery.CheckpointHandle
	userDir map[uint64]int
	lost    map[uint64]bool
	dirIdx  int
	liveOf   *dkv.DB
	liveSnap map[string]string
	keep     []any
}

func (r *c08Run) opts(fs storage.FileSystem, mem int) dkv.DBOptions {
	o := dkv.DBOptions{FileSystem: fs, MemTableSize: uint64(mem), TargetFileSize: uint64(r.cfg.target), L0TableNumCompactionTrigger: r.cfg.l0,
		Logger: slog.New(&c08LogHandler{r: r})}
	if r.cfg.wal > 0 {
		o.MaxWALSize = uint64(r.cfg.wal)
	}
	return o
}

// start creates an instance in directory dir and opens it from the handles (nil = from scratch).
func (r *c08Run) start(dir string, handles []recovery.CheckpointHandle) string {
	r.dir = dir
	r.fs = newC08FS(r.base.WithWorkingDir(dir), false)
	db := dkv.New(r.opts(r.fs, r.cfg.mem))
	comp := db.VerifCompactor()
	comp.MaxSizeAmplificationPercent = r.cfg.maxAmp
	comp.SmallestLevelSize = int64(r.cfg.smallest)
	r.db = db
	r.s = &c08Sched{dkvSched: &dkvSched{db: db, parked: map[string]*parkedTask{}, events: make(chan string, 64), ids: map[*sst.Table]int{}}, ck: map[uint64]*parkedTask{}}
	verifhook.Set(r.s.handler)
	r.flushQ, r.compactQ = 0, 0
	r.waits = map[uint64]c08Wait{}
	r.phase = map[uint64]int{}
	res := make(chan string, 1)
	go func() {
		defer func() {
			if p := recover(); p != nil {
				res <- "panic " + c08Short(fmt.Sprint(p))
			}
		}()
		if err := db.Start(handles); err != nil {
			res <- "err " + c08Short(err.Error())
			return
		}
		res <- ""
	}()
	if r.freeStart {
		return r.pump(res)
	}
	select {
	case e := <-res:
		return e
	case <-time.After(10 * time.Second):
		return "timeout"
	}
}

// pump lets the background tasks of the starting instance run while DB.Start is still replaying: whenever a flush
// or compaction task is parked at a hook it is released, one at a time, in whatever order they show up relative to
// the replay loop (not recorded: afterwards only reads are compared). Before every release the files of the retained
// checkpoint and of the live level list are verified, so that no task is let loose on damaged tables.
func (r *c08Run) pump(res chan string) string {
	s := r.s
	started, startErr := false, ""
	var tasksDone chan struct{}
	deadline := time.Now().Add(20 * time.Second)
	for time.Now().Before(deadline) {
		if !started {
			select {
			case e := <-res:
				if e != "" {
					return e
				}
				started = true
				tasksDone = make(chan struct{})
				db := r.db
				go func() { db.WaitOnTasks(); close(tasksDone) }()
			default:
			}
		}
		progressed := false
		for _, kind := range []string{"flush", "compact"} {
			s.mu.Lock()
			t := s.parked[kind]
			s.mu.Unlock()
			if t == nil {
				continue
			}
			if st := r.intact(); st != "ok" {
				r.corrupt = st
				return startErr
			}
			if st := r.liveIntact(); st != "ok" {
				r.corrupt = st
				return startErr
			}
			for len(s.events) > 0 {
				<-s.events
			}
			s.release(kind)
			progressed = true
			// until the task parks again or reports that it is through
			wait := time.Now().Add(schedGrace)
			for time.Now().Before(wait) {
				s.mu.Lock()
				again := s.parked[kind] != nil
				s.mu.Unlock()
				if again || len(s.events) > 0 {
					break
				}
				time.Sleep(20 * time.Microsecond)
			}
		}
		if started && !progressed {
			select {
			case <-tasksDone:
				return ""
			default:
			}
		}
		if !progressed {
			time.Sleep(50 * time.Microsecond)
		}
	}
	return "timeout"
}

func c08Short(s string) string {
	s = strings.ReplaceAll(s, " ", "_")
	if len(s) > 120 {
		s = s[:120]
	}
	return s
}

// crash abandons the current instance: its file system dies first, then every parked task is let go
// (the flush and compaction queues are process-global and must be drained before the next instance runs).
func (r *c08Run) crash() {
	if r.db == nil {
		return
	}
	r.fs.dead.Store(true)
	if r.held != nil {
		close(r.held.gate.open) // the held write of the dead instance goes nowhere
		r.held = nil
	}
	r.s.freeEverything()
	db, waits := r.db, r.waits
	done := make(chan struct{})
	go func() {
		db.WaitOnTasks()
		for _, w := range waits {
			w()
		}
		close(done)
	}()
	select {
	case <-done:
	case <-time.After(10 * time.Second):
	}
	r.keep = append(r.keep, db)
	r.db = nil
}

// c08Held is a save of the checkpoints document stopped at the gate inside CheckpointList.Save.
type c08Held struct {
	gate *c08Gate
	id   uint64 // the checkpoint whose handle the save returns (cd) …
	isCd bool   // … or a retention update
	res  chan c08SaveRes
}

type c08SaveRes struct {
	h   recovery.CheckpointHandle
	err error
}

// listLocked: a save is held and the list mutex is held with it, so any other list operation would wait.
func (r *c08Run) listLocked() bool {
	return r.held != nil && r.db != nil && r.db.VerifCheckpointListLocked()
}

// hold starts call, whose save of the checkpoints file stops at the gate; reports whether the gate was reached.
func (r *c08Run) hold(id uint64, isCd bool, start func(), call func() (recovery.CheckpointHandle, error)) bool {
	ok, _ := r.holdAt(false, id, isCd, start, call)
	return ok
}

// holdAt: atDelete = stop at the first WAL deletion (after the document write) instead of at the document write.
// Returns (held, finished): finished = the call completed without reaching the gate (nothing to delete).
func (r *c08Run) holdAt(atDelete bool, id uint64, isCd bool, start func(), call func() (recovery.CheckpointHandle, error)) (bool, *c08SaveRes) {
	var g *c08Gate
	if atDelete {
		g = r.fs.armDelGate()
	} else {
		g = r.fs.armGate() // armed before the save can start
	}
	if start != nil {
		start()
	}
	res := make(chan c08SaveRes, 1)
	go func() {
		defer func() {
			if p := recover(); p != nil {
				res <- c08SaveRes{err: fmt.Errorf("panic %v", p)}
			}
		}()
		h, err := call()
		res <- c08SaveRes{h, err}
	}()
	select {
	case <-g.reached:
		r.held = &c08Held{gate: g, id: id, isCd: isCd, res: res}
		return true, nil
	case x := <-res:
		g.armed.Store(false)
		return false, &x
	case <-time.After(schedGrace):
		g.armed.Store(false)
		return false, nil
	}
}

func (r *c08Run) keptBy(ids []uint64) []uint64 {
	var newest uint64
	for _, id := range ids {
		newest = max(newest, id)
	}
	var kept []uint64
	for _, id := range r.lineage {
		if slices.Contains(ids, id) || id > newest {
			kept = append(kept, id)
		}
	}
	return kept
}

type c08Doc struct {
	Checkpoints []struct {
		ID   uint64 `json:"id"`
		WALs []struct {
			URI string `json:"uri"`
		} `json:"wals"`
		Levels [][]struct{ URI string } `json:"levels"`
	} `json:"checkpoints"`
}

func (r *c08Run) hashOf(uri string) string {
	data, err := storage.ReadAll(r.base.Open(uri))
	if err != nil {
		return "missing"
	}
	h := sha256.Sum256(data)
	return hex.EncodeToString(h[:8])
}

// snapshot records the content of every file the completed checkpoint references.
func (r *c08Run) snapshot(h recovery.CheckpointHandle) {
	data, err := storage.ReadAll(r.base.Open(h.URI))
	if err != nil {
		return
	}
	var doc c08Doc
	if json.Unmarshal(data, &doc) != nil {
		return
	}
	for _, cp := range doc.Checkpoints {
		if cp.ID != h.CheckpointID {
			continue
		}
		m := map[string]string{}
		for _, w := range cp.WALs {
			m[w.URI] = r.hashOf(w.URI)
		}
		for _, l := range cp.Levels {
			for _, t := range l {
				m[t.URI] = r.hashOf(t.URI)
			}
		}
		r.snap[h.CheckpointID] = m
		return
	}
}

// gotHandle: Checkpoint returned the handle of id to the user.
func (r *c08Run) gotHandle(id uint64, h recovery.CheckpointHandle) {
	r.handles[id] = h
	r.snapshot(h)
	if slices.Contains(r.lineage, id) {
		r.user[id] = h
		r.userDir[id] = r.dirIdx
	}
}

func c08Keeps(ids []uint64, id uint64) bool {
	var newest uint64
	for _, x := range ids {
		newest = max(newest, x)
	}
	return slices.Contains(ids, id) || id > newest
}

// userRetain: the user gives up the handles a retention update does not keep.
func (r *c08Run) userRetain(ids []uint64) {
	for id := range r.user {
		if !c08Keeps(ids, id) {
			delete(r.user, id)
		}
	}
	for id := range r.lost {
		if !c08Keeps(ids, id) {
			delete(r.lost, id)
		}
	}
}

func (r *c08Run) retainedDone(id uint64) bool {
	_, ok := r.handles[id]
	return ok && slices.Contains(r.lineage, id) && !(r.held != nil && r.held.isCd && r.held.id == id)
}

// c08Val prints a value: short ones in hex, long ones (the >= 64 KB values that make WAL segments large) as
// length and a checksum, the same way the driver does.
func c08Val(v []byte) string {
	if len(v) <= 64 {
		return lib.Hex(v)
	}
	var sum uint64
	for _, b := range v {
		sum = (sum*131 + uint64(b)) % 4294967291
	}
	return fmt.Sprintf("L%dx%d", len(v), sum)
}

func c08ShowEntry(e kv.Entry, err error) string {
	if err == kv.ErrNotFound {
		return "absent"
	}
	if err != nil {
		return "err " + c08Short(err.Error())
	}
	if e.IsDelete() {
		return "absent"
	}
	return "val " + c08Val(e.Value())
}

func c08ShowScan(db *dkv.DB, prefix []byte) string {
	var scanErr error
	var parts []string
	for e := range db.ScanPrefix(prefix, &scanErr) {
		parts = append(parts, lib.Hex(e.Key())+":"+c08Val(e.Value()))
	}
	if scanErr != nil {
		return "err " + c08Short(scanErr.Error())
	}
	if len(parts) == 0 {
		return "empty"
	}
	return strings.Join(parts, ",")
}

func c08Scan(db *dkv.DB) (out string) {
	defer func() {
		if p := recover(); p != nil {
			out = "panic " + c08Short(fmt.Sprint(p))
		}
	}()
	return c08ShowScan(db, nil)
}

// c08Leaked keeps abandoned-without-cleanup instances reachable (their table cleanups must not run either).
var c08Leaked []any

func runC08Trace(c lib.Case) []string {
	c07Mu.Lock() // one DB at a time: the flush/compaction queues and the hook handler are process-global
	defer c07Mu.Unlock()
	cfg := c08Cfg{c07Cfg: parseC07Header(c.Header)}
	for _, f := range strings.Fields(c.Header) {
		if v, ok := strings.CutPrefix(f, "wal="); ok {
			cfg.wal, _ = strconv.Atoi(v)
		}
	}
	c07Seq++
	r := &c08Run{cfg: cfg, base: storage.NewMemoryFilesystem(), root: fmt.Sprintf("/c08-%d", c07Seq),
		handles: map[uint64]recovery.CheckpointHandle{}, uriID: map[string]int{}, snap: map[uint64]map[string]string{},
		user: map[uint64]recovery.CheckpointHandle{}, userDir: map[uint64]int{}, lost: map[uint64]bool{}}
	r.start(r.root, nil)
	defer func() {
		if r.corrupt != "" && r.db != nil {
			// the parked background tasks of this instance would read the damaged files: they are never resumed.
			// They keep the locks of the process-wide task queues, which are therefore replaced.
			r.fs.dead.Store(true)
			c08Leaked = append(c08Leaked, r.db, r.s, r.keep)
			dkv.VerifResetQueues()
			r.db = nil
		}
		r.crash()
		verifhook.Set(nil)
		runtime.KeepAlive(r.keep)
	}()

	out := make([]string, 0, len(c.Ops))
	emit := func(s string) { out = append(out, s) }
	for _, op := range c.Ops {
		f := strings.Fields(op)
		if os.Getenv("C08_TRACE") == "2" {
			fmt.Fprintf(os.Stderr, "[%d] %.60s (prev -> %.80s)\n", len(out), op, strings.Join(out[max(0, len(out)-1):], ""))
		}
		if r.db == nil {
			emit("no-db")
			continue
		}
		if r.freeMode && f[0] != "get" && f[0] != "scan" {
			emit("ended")
			continue
		}
		if r.corrupt != "" {
			// a file of a retained checkpoint was overwritten or deleted: the real instance is not driven any further
			// (its background tasks would read garbage); the next property-level observation shows the damage
			emit("corrupt " + r.corrupt)
			continue
		}
		db, s := r.db, r.s
		switch f[0] {
		case "put", "del":
			if r.flushQ >= 3 {
				// bg.TaskQueue holds 5 tasks; a restore replays the backlog in one go, so it is kept small
				emit("queue-full")
				continue
			}
			before := db.VerifMemtableCount()
			if f[0] == "put" {
				db.Put(lib.UnHex(f[1]), lib.UnHex(f[2]))
			} else {
				db.Delete(lib.UnHex(f[1]))
			}
			if db.VerifMemtableCount() > before {
				r.flushQ++
				emit("rot=1")
			} else {
				emit("rot=0")
			}
		case "get":
			emit(c08ShowEntry(db.Get(lib.UnHex(f[1]))))
		case "scan":
			emit(c08ShowScan(db, lib.UnHex(f[1])))
		case "bg":
			emit(r.bg(f[1]))
		case "ckpt", "ckptrace":
			id, _ := strconv.ParseUint(f[1], 10, 64)
			if r.listLocked() {
				emit("blocked") // CheckpointList.Add would wait for the held save (with db.mu held)
				continue
			}
			if slices.Contains(r.usedIDs, id) {
				emit("disabled") // "this ID must not be repeated between checkpoints" (of one instance)
				continue
			}
			r.usedIDs = append(r.usedIDs, id)
			// `ckptrace`: a flush commit is parked at its hook; should DB.Checkpoint log anything on its way, the commit lands
			// at that very point (log calls are the only places inside Checkpoint before its lock that can be reached)
			n := 0
			if f[0] == "ckptrace" && r.compactQ < 4 {
				s.mu.Lock()
				t := s.parked["flush"]
				s.mu.Unlock()
				if t != nil && t.label == "dkv.flush.commit" {
					n = t.payload[1].(int)
					r.raceFired = false
					r.raceArmed.Store(true)
				}
			}
			r.waits[id] = c08Wait(db.Checkpoint(id))
			r.raceArmed.Store(false)
			r.phase[id] = 0
			r.lineage = append(r.lineage, id)
			delete(r.handles, id)
			delete(r.user, id)
			delete(r.lost, id)
			if r.raceFired {
				r.raceFired = false
				r.flushQ--
				r.compactQ++
				for _, ti := range db.VerifLevels().VerifLayout()[0] {
					if _, ok := s.ids[ti.Table]; !ok {
						s.ids[ti.Table] = s.nextID
						r.uriID[ti.URI] = s.nextID
						s.nextID++
					}
				}
				emit(fmt.Sprintf("captured commit-first %d", n))
				continue
			}
			emit("captured")
		case "cw":
			id, _ := strconv.ParseUint(f[1], 10, 64)
			if r.waits[id] == nil || r.phase[id] != 0 {
				emit("none")
				continue
			}
			if !s.waitCk(id, "dkv.checkpoint.savewal") {
				emit("timeout")
				continue
			}
			s.releaseCk(id)
			if !s.waitCk(id, "dkv.checkpoint.savedoc") {
				emit("timeout")
				continue
			}
			r.phase[id] = 1
			emit("ok")
		case "cd", "hcd":
			id, _ := strconv.ParseUint(f[1], 10, 64)
			if r.listLocked() {
				emit("blocked")
				continue
			}
			if r.waits[id] == nil || r.phase[id] != 1 {
				emit("none")
				continue
			}
			if f[0] == "hcd" && r.held == nil {
				w := r.waits[id]
				if r.hold(id, true, func() { s.releaseCk(id) }, w) {
					emit("held")
				} else {
					emit("timeout")
				}
				continue
			}
			s.releaseCk(id)
			w := r.waits[id]
			type res struct {
				h   recovery.CheckpointHandle
				err error
			}
			ch := make(chan res, 1)
			go func() { h, err := w(); ch <- res{h, err} }()
			select {
			case x := <-ch:
				delete(r.waits, id)
				delete(r.phase, id)
				if x.err != nil {
					emit("err " + c08Short(x.err.Error()))
					continue
				}
				r.gotHandle(id, x.h)
				emit("ok")
			case <-time.After(schedGrace):
				emit("timeout")
			}
		case "probe":
			// a real list operation issued while a save may be held: DB.NeedsTable -> CheckpointList.IncludesTable. It has no
			// effect, so it can really be called: with the list mutex held by the save it does not return before `release`.
			done := make(chan struct{})
			go func() { db.NeedsTable("memory:///no-such-table.sst"); close(done) }()
			select {
			case <-done:
				emit("free")
			case <-time.After(5 * time.Millisecond):
				if r.held == nil {
					<-done // nothing can hold it: it was just slow
					emit("free")
				} else {
					r.probes = append(r.probes, done)
					emit("blocked")
				}
			}
		case "release":
			if r.held == nil {
				emit("none")
				continue
			}
			hd := r.held
			r.held = nil
			close(hd.gate.open)
			probesBack := true
			for _, p := range r.probes {
				select {
				case <-p:
				case <-time.After(schedGrace):
					probesBack = false
				}
			}
			r.probes = nil
			if !probesBack {
				emit("timeout probes")
				continue
			}
			select {
			case x := <-hd.res:
				if x.err != nil {
					emit("err " + c08Short(x.err.Error()))
					continue
				}
				if hd.isCd {
					delete(r.waits, hd.id)
					delete(r.phase, hd.id)
					r.gotHandle(hd.id, x.h)
				}
				emit("ok")
			case <-time.After(schedGrace):
				emit("timeout")
			}
		case "hretaind":
			// a retention update stopped after its document write, at the first deletion of a dropped checkpoint's WAL
			ids := c08ParseIDs(f[1])
			if r.listLocked() {
				emit("blocked")
				continue
			}
			kept := r.keptBy(ids)
			if len(kept) == 0 {
				emit("refused")
				continue
			}
			if r.held != nil {
				if err := db.UpdateRetainedCheckpoints(ids); err != nil {
					emit("err " + c08Short(err.Error()))
					continue
				}
				r.lineage = kept
				r.userRetain(ids)
				emit("ok")
				continue
			}
			held, fin := r.holdAt(true, 0, false, nil, func() (recovery.CheckpointHandle, error) {
				return recovery.CheckpointHandle{}, db.UpdateRetainedCheckpoints(ids)
			})
			switch {
			case held:
				r.lineage = kept
				r.userRetain(ids)
				emit("held")
			case fin != nil && fin.err == nil:
				r.lineage = kept
				r.userRetain(ids)
				emit("ok")
			case fin != nil:
				emit("err " + c08Short(fin.err.Error()))
			default:
				emit("timeout")
			}
		case "retain", "hretain":
			ids := c08ParseIDs(f[1])
			if r.listLocked() {
				emit("blocked")
				continue
			}
			kept := r.keptBy(ids)
			if f[0] == "hretain" && r.held == nil && len(kept) > 0 {
				if r.hold(0, false, nil, func() (recovery.CheckpointHandle, error) {
					return recovery.CheckpointHandle{}, db.UpdateRetainedCheckpoints(ids)
				}) {
					r.lineage = kept
					r.userRetain(ids)
					emit("held")
				} else {
					emit("timeout")
				}
				continue
			}
			if len(kept) == 0 {
				emit("refused") // the code panics ("db missing the job's retained checkpoints"): caller contract
				continue
			}
			if err := db.UpdateRetainedCheckpoints(ids); err != nil {
				emit("err " + c08Short(err.Error()))
				continue
			}
			r.lineage = kept
			r.userRetain(ids)
			emit("ok")
		case "reopen":
			id, _ := strconv.ParseUint(f[1], 10, 64)
			if !r.retainedDone(id) {
				emit("refused")
				continue
			}
			h := r.handles[id]
			r.crash()
			dir := r.dir
			if f[2] == "fresh" {
				r.dirN++
				dir = fmt.Sprintf("%s-d%d", r.root, r.dirN)
			}
			// a restore from id abandons the later checkpoints; the user keeps the handles of the earlier ones
			// the user keeps every handle: retention is decided by retention updates, not by a restart
			if f[2] == "fresh" {
				r.dirIdx = r.dirN
			}
			if e := r.start(dir, []recovery.CheckpointHandle{h}); e != "" {
				r.crash() // frees whatever the failed start left parked; later operations answer no-db
				emit("failed " + e)
				continue
			}
			r.lineage = []uint64{id}
			r.usedIDs = []uint64{id}
			r.handles = map[uint64]recovery.CheckpointHandle{id: h}
			// the loaded tables keep the model ids they had; numbering continues above them
			for _, lvl := range r.db.VerifLevels().VerifLayout() {
				for _, ti := range lvl {
					mid, ok := r.uriID[ti.URI]
					if !ok {
						mid = 999999
					}
					r.s.ids[ti.Table] = mid
					r.s.nextID = max(r.s.nextID, mid+1)
				}
			}
			rots := r.db.VerifSealedMaxSeqs()
			r.flushQ = len(rots)
			var rs []string
			for _, x := range rots {
				rs = append(rs, strconv.FormatUint(x, 10))
			}
			rstr := "-"
			if len(rs) > 0 {
				rstr = strings.Join(rs, ",")
			}
			emit(fmt.Sprintf("opened n=%d rots=%s", len(rots), rstr))
		case "reopenfree":
			// restore with the background tasks running freely during the replay of DB.Start (flush and compaction
			// commits interleave with the replay loop as the Go scheduler pleases); afterwards only reads
			id, _ := strconv.ParseUint(f[1], 10, 64)
			if !r.retainedDone(id) {
				emit("refused")
				continue
			}
			h := r.handles[id]
			r.crash()
			r.lineage = []uint64{id}
			r.usedIDs = []uint64{id}
			r.handles = map[uint64]recovery.CheckpointHandle{id: h}
			r.freeStart = true
			e := r.start(r.dir, []recovery.CheckpointHandle{h})
			r.freeStart = false
			if e != "" {
				r.crash()
				emit("failed " + e)
				continue
			}
			r.freeMode = true
			if r.corrupt != "" {
				emit("corrupt " + r.corrupt)
			} else {
				emit("opened-free")
			}
		case "peek":
			id, _ := strconv.ParseUint(f[1], 10, 64)
			h, ok := r.user[id]
			if !ok || (r.held != nil && r.held.isCd && r.held.id == id) {
				emit("refused")
				continue
			}
			if !slices.Contains(r.lineage, id) && r.held != nil {
				emit("unsettled")
				continue
			}
			if !slices.Contains(r.lineage, id) && r.userDir[id] != r.dirIdx {
				emit("otherdir")
				continue
			}
			res := r.peek(h)
			if strings.Contains(res, "failed_to_find_indicated_checkpoint_ID") {
				res = "failed"
			}
			emit(res)
		case "intact":
			emit(r.intact())
		default:
			emit("bad-op")
		}
		if r.db != nil && f[0] != "get" && f[0] != "scan" && f[0] != "peek" {
			if st := r.intact(); st != "ok" {
				r.corrupt = st
			} else if f[0] == "bg" || f[0] == "reopen" {
				if st := r.liveIntact(); st != "ok" {
					r.corrupt = st
				}
			}
		}
	}
	if os.Getenv("C08_TRACE") != "" { // debugging aid only
		for i, o := range out {
			fmt.Fprintf(os.Stderr, "%-30.30s -> %.150s\n", c.Ops[i], o)
		}
		fmt.Fprintln(os.Stderr)
	}
	return out
}

func c08ParseIDs(s string) []uint64 {
	var ids []uint64
	if s == "-" {
		return ids
	}
	for _, p := range strings.Split(s, ",") {
		v, _ := strconv.ParseUint(p, 10, 64)
		ids = append(ids, v)
	}
	return ids
}

// peek opens a throw-away instance from the handle on a file system that drops every write.
func (r *c08Run) peek(h recovery.CheckpointHandle) (out string) {
	res := make(chan string, 1)
	go func() {
		defer func() {
			if p := recover(); p != nil {
				res <- "panic " + c08Short(fmt.Sprint(p))
			}
		}()
		fs := newC08FS(r.base.WithWorkingDir(r.dir), true)
		o := r.opts(fs, 1<<30)
		o.MaxWALSize = 0 // default (64 MB): the observer must never rotate, its flush tasks would sit in the global queue
		db := dkv.New(o)
		if err := db.Start([]recovery.CheckpointHandle{h}); err != nil {
			res <- "err " + c08Short(err.Error())
			return
		}
		s := c08Scan(db)
		r.keep = append(r.keep, db)
		res <- s
	}()
	select {
	case s := <-res:
		return s
	case <-time.After(10 * time.Second):
		return "timeout"
	}
}

// intact evaluates the statement of `files_intact` on the implementation: every file referenced by a
// retained, completed checkpoint still has the content it had when the handle was returned.
func (r *c08Run) intact() string {
	ids := slices.Clone(r.lineage)
	slices.Sort(ids)
	for _, id := range ids {
		if _, ok := r.handles[id]; !ok {
			continue
		}
		m := r.snap[id]
		uris := make([]string, 0, len(m))
		for u := range m {
			uris = append(uris, u)
		}
		slices.Sort(uris)
		for _, u := range uris {
			if got := r.hashOf(u); got != m[u] {
				name := u[strings.LastIndex(u, "/")+1:]
				if got == "missing" {
					return fmt.Sprintf("missing ckpt=%d %s", id, name)
				}
				return fmt.Sprintf("changed ckpt=%d %s", id, name)
			}
		}
	}
	return "ok"
}

// liveIntact: table files are immutable, so a table of the live level list must keep the content it had when it
// was first seen there (a background task reading an overwritten table would bring the process down).
func (r *c08Run) liveIntact() string {
	if r.liveOf != r.db {
		r.liveOf, r.liveSnap = r.db, map[string]string{}
	}
	for _, lvl := range r.db.VerifLevels().VerifLayout() {
		for _, ti := range lvl {
			got := r.hashOf(ti.URI)
			if was, ok := r.liveSnap[ti.URI]; !ok {
				r.liveSnap[ti.URI] = got
			} else if was != got {
				return "changed live " + ti.Name
			}
		}
	}
	return "ok"
}

// bg performs one background step of the current instance (same protocol as C07).
func (r *c08Run) bg(kind string) string {
	db, s := r.db, r.s
	switch kind {
	case "f":
		if r.flushQ == 0 {
			return "none"
		}
		t := s.waitParked("flush")
		if t == nil {
			return "timeout"
		}
		n := t.payload[1].(int)
		if t.label != "dkv.flush.begin" && r.compactQ >= 4 {
			return "queue-full"
		}
		if t.label == "dkv.flush.begin" {
			s.release("flush")
			if s.waitParked("flush") == nil {
				return "timeout"
			}
			return fmt.Sprintf("flushbegin %d", n)
		}
		s.release("flush")
		if s.waitEvent("dkv.flush.done") == "timeout" {
			return "timeout"
		}
		r.flushQ--
		r.compactQ++
		for _, ti := range db.VerifLevels().VerifLayout()[0] {
			if _, ok := s.ids[ti.Table]; !ok {
				s.ids[ti.Table] = s.nextID
				r.uriID[ti.URI] = s.nextID
				s.nextID++
			}
		}
		return fmt.Sprintf("flushcommit %d", n)
	case "c":
		if r.compactQ == 0 {
			return "none"
		}
		t := s.waitParked("compact")
		if t == nil {
			return "timeout"
		}
		if t.label == "dkv.compact.begin" {
			s.release("compact")
			got := ""
			deadline := time.Now().Add(schedGrace)
			for got == "" {
				select {
				case e := <-s.events:
					if e == "dkv.compact.idle" {
						got = "idle"
					}
					continue
				default:
				}
				s.mu.Lock()
				p := s.parked["compact"]
				s.mu.Unlock()
				if p != nil && p.label == "dkv.compact.commit" {
					got = "parked"
				} else if time.Now().After(deadline) {
					got = "timeout"
				} else {
					time.Sleep(20 * time.Microsecond)
				}
			}
			switch got {
			case "idle":
				r.compactQ--
				return "compactidle"
			case "parked":
				return "compactbegin"
			}
			return "timeout"
		}
		cs := t.payload[1].(*sst.ChangeSet)
		lvls, added, removed := cs.VerifChangeSet()
		nLevels := len(db.VerifLevels().VerifLayout())
		lvl := -2
		for _, l := range lvls {
			if l < 0 {
				l = nLevels + l
			}
			if lvl == -2 {
				lvl = l
			} else if lvl != l {
				lvl = -3
			}
		}
		var rm []string
		for _, x := range removed {
			if id, ok := s.ids[x]; ok {
				rm = append(rm, strconv.Itoa(id))
			} else {
				rm = append(rm, "999999")
			}
		}
		var add []string
		for _, a := range added {
			add = append(add, dumpTable(a))
			s.ids[a] = s.nextID
			r.uriID[a.URI()] = s.nextID
			s.nextID++
		}
		s.release("compact")
		if s.waitEvent("dkv.compact.done") == "timeout" {
			return "timeout"
		}
		rmS, addS := "-", "none"
		if len(rm) > 0 {
			rmS = strings.Join(rm, ",")
		}
		if len(add) > 0 {
			addS = strings.Join(add, "|")
		}
		return fmt.Sprintf("compact L%d rm=%s add=%s", lvl, rmS, addS)
	}
	return "bad-op"
}

// ---- generator (pure: tracks only what the operations themselves determine) ----

type c08Gen struct {
	r       *lib.Rng
	ops     []string
	next    uint64
	lineage []uint64
	phase   map[uint64]int // 0 captured, 1 WAL saved, 2 done
	big     bool           // some values are 60-72 KB
	user    []uint64       // handles the user holds (they survive reopen)
}

func (g *c08Gen) finish(id uint64) {
	g.phase[id] = 2
	if slices.Contains(g.lineage, id) && !slices.Contains(g.user, id) {
		g.user = append(g.user, id)
	}
}

func (g *c08Gen) userIDs() []uint64 {
	ids := slices.Clone(g.user)
	slices.Sort(ids)
	return ids
}

func (g *c08Gen) userRetain(ids []uint64) {
	g.user = slices.DeleteFunc(g.user, func(id uint64) bool { return !c08Keeps(ids, id) })
}

func (g *c08Gen) add(op string) { g.ops = append(g.ops, op) }

func (g *c08Gen) observe(full bool) {
	g.add("scan -")
	keys := c07Pool
	if !full {
		keys = keys[:5]
	}
	for _, k := range keys {
		g.add("get " + lib.Hex(k))
	}
}

func (g *c08Gen) doneIDs() []uint64 {
	var ids []uint64
	for _, id := range g.lineage {
		if g.phase[id] == 2 {
			ids = append(ids, id)
		}
	}
	return ids
}

func (g *c08Gen) pendingIDs(ph int) []uint64 {
	var ids []uint64
	for id, p := range g.phase {
		if p == ph {
			ids = append(ids, id)
		}
	}
	slices.Sort(ids)
	return ids
}

func (g *c08Gen) bgSome(max int) {
	for i := g.r.Intn(max + 1); i > 0; i-- {
		g.add(lib.Pick(g.r, []string{"bg f", "bg f", "bg c"}))
	}
}

func (g *c08Gen) checkpoint() {
	id := g.next
	g.next++
	if g.r.Chance(1, 3) {
		// bring a flush to its commit point first, then checkpoint with the commit ready to land at any log call
		g.add("bg f")
		g.add(fmt.Sprintf("ckptrace %d", id))
	} else {
		g.add(fmt.Sprintf("ckpt %d", id))
	}
	g.lineage = append(g.lineage, id)
	g.phase[id] = 0
	g.user = slices.DeleteFunc(g.user, func(x uint64) bool { return x == id })
}

func (g *c08Gen) write() {
	if g.r.Chance(1, 5) {
		g.add("del " + lib.Hex(c07Key(g.r)))
	} else {
		v := c07Val(g.r)
		if g.big && g.r.Chance(1, 4) {
			// one record of 64 KB or more: the WAL segment it lands in is large enough for buffer reuse schemes to matter
			v = bytes.Repeat([]byte{byte(g.r.Intn(256))}, g.r.Range(60000, 72000))
		}
		g.add(fmt.Sprintf("put %s %s", lib.Hex(c07Key(g.r)), lib.Hex(v)))
	}
}

func (g *c08Gen) reopen(id uint64) {
	mode := "same"
	if g.r.Chance(1, 3) {
		mode = "fresh"
	}
	g.add(fmt.Sprintf("reopen %d %s", id, mode))
	g.lineage = []uint64{id}
	g.phase = map[uint64]int{id: 2}

	g.next = id + 1 // a restored job continues numbering after the checkpoint it restored (ids of the abandoned future are reused)
	g.observe(g.r.Chance(1, 2))
}

func (g *c08Gen) keptBy(ids []uint64) []uint64 {
	var newest uint64
	for _, id := range ids {
		newest = max(newest, id)
	}
	var kept []uint64
	for _, id := range g.lineage {
		if slices.Contains(ids, id) || id > newest {
			kept = append(kept, id)
		}
	}
	return kept
}

// overlap holds the write of the checkpoints document of one save and issues other list operations meanwhile.
// With the list mutex held across the write (the code as it is) they all report `blocked` and are repeated
// after the release; the generator's own bookkeeping assumes exactly that.
func (g *c08Gen) overlap() {
	var heldID uint64
	if p := g.pendingIDs(1); len(p) > 0 && g.r.Chance(2, 3) {
		heldID = lib.Pick(g.r, p)
		g.add(fmt.Sprintf("hcd %d", heldID))
	} else if p := g.pendingIDs(0); len(p) > 0 && g.r.Chance(1, 2) {
		heldID = lib.Pick(g.r, p)
		g.add(fmt.Sprintf("cw %d", heldID))
		g.phase[heldID] = 1
		g.add(fmt.Sprintf("hcd %d", heldID))
	} else if len(g.lineage) > 0 {
		ids := []uint64{g.lineage[len(g.lineage)-1]}
		if len(g.lineage) > 1 && g.r.Bool() {
			ids = append(ids, g.lineage[g.r.Intn(len(g.lineage)-1)])
		}
		var ss []string
		for _, id := range ids {
			ss = append(ss, strconv.FormatUint(id, 10))
		}
		g.add(lib.Pick(g.r, []string{"hretain ", "hretain ", "hretaind "}) + strings.Join(ss, ","))
		g.lineage = g.keptBy(ids)
		g.userRetain(ids)
	} else {
		return
	}
	probe := g.next // the checkpoint attempted (and blocked) while the save is held
	var blocked []string
	for i := g.r.Range(2, 6); i > 0; i-- {
		switch g.r.Intn(7) {
		case 0, 1:
			g.write()
		case 2:
			g.add(lib.Pick(g.r, []string{"bg f", "bg c"}))
		case 3:
			blocked = append(blocked, fmt.Sprintf("ckpt %d", probe), fmt.Sprintf("cw %d", probe), fmt.Sprintf("cd %d", probe))
			g.add(fmt.Sprintf("ckpt %d", probe))
			g.add(fmt.Sprintf("cw %d", probe))
			g.add(fmt.Sprintf("cd %d", probe))
		case 4:
			if p := g.pendingIDs(1); len(p) > 0 && g.r.Bool() {
				g.add(fmt.Sprintf("cd %d", lib.Pick(g.r, p)))
			} else {
				g.add("probe")
			}
		case 5:
			if len(g.lineage) > 0 {
				g.add(fmt.Sprintf("retain %d", g.lineage[len(g.lineage)-1]))
			}
		default:
			if d := g.userIDs(); len(d) > 0 {
				g.add(fmt.Sprintf("peek %d", lib.Pick(g.r, d)))
			}
		}
	}
	g.add("release")
	if heldID != 0 {
		g.finish(heldID)
	}
	for _, id := range g.userIDs() {
		g.add(fmt.Sprintf("peek %d", id))
	}
	g.add(fmt.Sprintf("peek %d", probe))
}

func genC08Ops(r *lib.Rng, n int, big bool) []string {
	g := &c08Gen{r: r, next: 1, phase: map[uint64]int{}, big: big}
	for len(g.ops) < n {
		switch x := r.Intn(100); {
		case x < 38:
			g.write()
		case x < 44:
			g.add("get " + lib.Hex(c07Key(r)))
		case x < 47:
			g.add("scan " + lib.Hex(c07Key(r)))
		case x < 58:
			g.add("bg f")
		case x < 66:
			g.add("bg c")
		case x < 73:
			g.checkpoint()
			if r.Chance(1, 2) {
				// finish it, with background work in between
				id := g.next - 1
				g.bgSome(2)
				g.add(fmt.Sprintf("cw %d", id))
				g.bgSome(2)
				g.add(fmt.Sprintf("cd %d", id))
				g.finish(id)
			}
		case x < 80:
			if p := g.pendingIDs(0); len(p) > 0 {
				id := lib.Pick(r, p)
				g.add(fmt.Sprintf("cw %d", id))
				g.phase[id] = 1
			} else if p := g.pendingIDs(1); len(p) > 0 {
				id := lib.Pick(r, p)
				g.add(fmt.Sprintf("cd %d", id))
				g.finish(id)
			}
		case x < 83:
			if p := g.pendingIDs(1); len(p) > 0 {
				id := lib.Pick(r, p)
				g.add(fmt.Sprintf("cd %d", id))
				g.finish(id)
			}
		case x < 86:
			if len(g.lineage) > 0 {
				var ids []uint64
				for _, id := range g.lineage {
					if r.Chance(2, 3) {
						ids = append(ids, id)
					}
				}
				if len(ids) == 0 {
					ids = []uint64{g.lineage[len(g.lineage)-1]}
				}
				var ss []string
				for _, id := range ids {
					ss = append(ss, strconv.FormatUint(id, 10))
				}
				g.add("retain " + strings.Join(ss, ","))
				g.lineage = g.keptBy(ids)
				g.userRetain(ids)
			}
		case x < 91:
			if d := g.doneIDs(); len(d) > 0 {
				g.reopen(lib.Pick(r, d))
			}
		case x < 95:
			if d := g.userIDs(); len(d) > 0 {
				g.add(fmt.Sprintf("peek %d", lib.Pick(r, d)))
			}
		case x < 98:
			g.overlap()
		default:
			g.add("intact")
		}
	}
	if d := g.doneIDs(); len(d) > 0 && r.Chance(1, 6) {
		// end with a restore whose replay runs concurrently with the flush and compaction tasks it starts
		g.add(fmt.Sprintf("reopenfree %d", lib.Pick(r, d)))
		g.observe(true)
		return g.ops
	}
	// final: every retained completed checkpoint still restores, then the current instance is observed
	g.add("intact")
	for _, id := range g.userIDs() {
		g.add(fmt.Sprintf("peek %d", id))
	}
	g.observe(true)
	return g.ops
}

func c08Big(b byte, n int) string { return lib.Hex(bytes.Repeat([]byte{b}, n)) }

func c08Fixed() []lib.Case {
	k, k2, k3, z := "6b", "6b32", "6b33", "7a7a"
	big := lib.Hex([]byte(strings.Repeat("x", 300)))
	hdr := "M C08 mem=200 l0=100"
	return []lib.Case{
		// D27: checkpoint while a flush is in flight, the flush commits afterwards, second checkpoint, restore from it
		{Header: hdr, Ops: []string{"put " + k + " 01", "put " + z + " " + big, "put " + k2 + " 02", "ckpt 1", "bg f", "bg f", "cw 1", "cd 1",
			"put " + k3 + " 03", "ckpt 2", "cw 2", "cd 2", "peek 1", "peek 2", "reopen 2 same", "scan -", "get " + k2, "get " + k3, "intact"}, Tags: []string{"regress-D27"}},
		// D28: restored instance flushes in the directory of the checkpoint; the checkpoint is restored again
		{Header: hdr, Ops: []string{"put " + k + " 01", "put " + z + " " + big, "bg f", "bg f", "ckpt 1", "cw 1", "cd 1", "reopen 1 same",
			"put " + k2 + " 02", "put " + z + " " + big, "bg f", "bg f", "get " + k, "scan -", "intact", "peek 1", "reopen 1 same", "scan -", "get " + k, "get " + k2}, Tags: []string{"regress-D28"}},
		// D6: compaction leaves a table whose last key is not its newest entry; restore, overwrite the newest, scan
		{Header: "M C08 mem=200 l0=2 amp=1 smallest=1", Ops: []string{"put " + k + " 01", "put 00 " + big, "bg f", "bg f", "bg c", "bg c",
			"put 00 " + big + "79", "bg f", "bg f", "bg c", "bg c", "bg c", "bg c", "ckpt 1", "cw 1", "cd 1", "reopen 1 same",
			"put 00 04", "get 00", "scan 00", "scan -", "put " + z + " " + big, "bg f", "bg f", "bg c", "bg c", "bg c", "get 00", "scan -"}, Tags: []string{"regress-D6"}},
		// the WAL save of a checkpoint runs late: after a flush of pre-checkpoint memtables committed (their WAL segments are
		// truncated), the memtable rotated again and more writes arrived, with segments of 64 KB and more. The saved file
		// must still hold the log as it was at the Checkpoint call.
		{Header: hdr, Ops: []string{"put " + k + " 01", "put " + k2 + " " + c08Big(0x41, 70000), "ckpt 1", "bg f", "bg f",
			"put " + k3 + " " + c08Big(0x42, 70000), "put " + z + " " + c08Big(0x43, 60000), "put " + k + " 02", "cw 1", "cd 1", "peek 1",
			"bg f", "bg f", "put " + k2 + " " + c08Big(0x44, 66000), "ckpt 2", "put " + z + " " + c08Big(0x45, 61000), "bg f", "bg f", "bg f", "bg f",
			"put " + k3 + " " + c08Big(0x46, 65000), "put " + k + " " + c08Big(0x47, 59000), "cw 2", "cd 2", "peek 1", "peek 2", "reopen 2 same", "scan -", "intact"},
			Tags: []string{"late-wal-save-large-segments"}},
		// D50 (open): checkpoints 1 and 2 retained, restart from 2 in the same directory, checkpoint 3: the document is
		// rewritten with [2,3] and the handle of 1, which the user never gave up, no longer opens. Right after the
		// restart it still does.
		{Header: hdr, Ops: []string{"put " + k + " 01", "ckpt 1", "cw 1", "cd 1", "put " + k2 + " 02", "ckpt 2", "cw 2", "cd 2", "retain 1,2",
			"reopen 2 same", "peek 1", "put " + k3 + " 03", "ckpt 3", "cw 3", "cd 3", "peek 1", "peek 2", "peek 3", "intact"}, Tags: []string{"witness-D50"}},
		// D67 (open): checkpoint 1 with nothing flushed, flush, checkpoint 2, both retained; restart from the OLDER checkpoint 1 in
		// the same directory, write, flush: the table file of checkpoint 2 is overwritten, its handle restores wrong contents
		{Header: hdr, Ops: []string{"put " + k + " 01", "ckpt 1", "cw 1", "cd 1", "put " + k2 + " 02", "put " + z + " " + big, "bg f", "bg f", "ckpt 2", "cw 2", "cd 2",
			"retain 1,2", "peek 2", "reopen 1 same", "peek 2", "put " + k3 + " 03", "put " + z + " " + big, "bg f", "bg f", "peek 1", "peek 2", "intact"}, Tags: []string{"witness-D67"}},
		// the same with the restart in a fresh directory: the old directory's document is left alone, handle 1 keeps working
		// (its document is outside the model's single name space: `otherdir`)
		{Header: hdr, Ops: []string{"put " + k + " 01", "ckpt 1", "cw 1", "cd 1", "put " + k2 + " 02", "ckpt 2", "cw 2", "cd 2", "retain 1,2",
			"reopen 2 fresh", "put " + k3 + " 03", "ckpt 3", "cw 3", "cd 3", "peek 1", "peek 2", "peek 3"}, Tags: []string{"D50-fresh-directory"}},
		// crash between the storage operations of a retention update: the document is written, the WAL of the dropped
		// checkpoint not yet deleted; the kept checkpoint restores, also when the deletion is never made
		{Header: hdr, Ops: []string{"put " + k + " 01", "ckpt 1", "cw 1", "cd 1", "put " + k2 + " 02", "ckpt 2", "cw 2", "cd 2", "hretaind 2",
			"peek 2", "ckpt 3", "release", "peek 2", "put " + k3 + " 03", "ckpt 3", "cw 3", "cd 3", "hretaind 3", "peek 3", "reopen 3 same", "scan -",
			"peek 3", "intact"}, Tags: []string{"crash-inside-save"}},
		// restore with freely running background tasks: several rotations during the replay, flushes and compactions commit
		// while DB.Start is still replaying; every read afterwards must be the map at the Checkpoint call
		{Header: "M C08 mem=60 target=64 l0=1 amp=1 smallest=1", Ops: []string{"put " + k + " 01", "put " + k2 + " " + c08Big(0x31, 50), "put " + k3 + " " + c08Big(0x32, 50),
			"del " + k2, "put " + k + " 02", "put " + z + " " + c08Big(0x33, 50), "ckpt 1", "bg f", "bg f", "put " + k3 + " 09", "cw 1", "cd 1", "reopenfree 1", "scan -",
			"get " + k, "get " + k2, "get " + k3, "get " + z, "put " + k + " 00"}, Tags: []string{"free-replay"}},
		// a flush commit parked at its hook while Checkpoint runs: whatever Checkpoint does before taking db.mu (a log line,
		// say) must not be a place where the commit can split the (level list, WAL) pair
		{Header: hdr, Ops: []string{"put " + k + " 01", "put " + z + " " + big, "put " + k2 + " 02", "bg f", "ckptrace 1", "bg f", "cw 1", "cd 1", "peek 1",
			"put " + k3 + " 03", "put " + z + " " + big, "bg f", "ckptrace 2", "cw 2", "bg f", "cd 2", "peek 2", "reopen 2 same", "scan -", "intact"}, Tags: []string{"checkpoint-vs-flush-commit"}},
		// retention keeps the listed checkpoints and every newer one; the dropped one is gone, the kept ones restore
		{Header: hdr, Ops: []string{"put " + k + " 01", "ckpt 1", "cw 1", "cd 1", "put " + k2 + " 02", "ckpt 2", "cw 2", "cd 2", "put " + k3 + " 03",
			"ckpt 3", "cw 3", "cd 3", "put " + k + " 04", "ckpt 4", "retain 2", "peek 1", "peek 2", "peek 3", "cw 4", "cd 4", "peek 4", "retain 4,2",
			"peek 2", "peek 3", "peek 4", "reopen 2 same", "scan -", "intact"}, Tags: []string{"retain-keeps-newer"}},
		// overlapping saves: the document write of checkpoint 1 is held while checkpoint 2 is taken and completed
		// (blocked behind the list mutex in the code as it is, then repeated); both must restore afterwards
		{Header: hdr, Ops: []string{"put " + k + " 01", "ckpt 1", "cw 1", "probe", "hcd 1", "probe", "put " + k2 + " 02", "ckpt 2", "cw 2", "cd 2", "release",
			"probe", "peek 1", "peek 2", "ckpt 2", "cw 2", "cd 2", "peek 1", "peek 2", "hretain 2", "put " + k3 + " 03", "ckpt 3", "cw 3", "cd 3", "release",
			"peek 2", "peek 3", "ckpt 3", "cw 3", "cd 3", "peek 2", "peek 3", "intact"}, Tags: []string{"overlapping-saves"}},
		// chain: checkpoint → restore (fresh directory) → write → flush → checkpoint → restore → older one gone from the lineage
		{Header: hdr, Ops: []string{"put " + k + " 01", "ckpt 1", "put " + k2 + " 02", "cw 1", "cd 1", "reopen 1 fresh", "scan -", "put " + k3 + " 03",
			"put " + z + " " + big, "bg f", "bg f", "ckpt 2", "cw 2", "put " + k + " 09", "cd 2", "peek 1", "peek 2", "retain 2", "peek 1", "reopen 2 same", "scan -", "intact"}, Tags: []string{"chain"}},
	}
}

func c08Nontrivial(c lib.Case, out []string) bool {
	// a restore of a checkpoint that was taken with unflushed data or after background commits
	restored := false
	for i, o := range out {
		f := strings.Fields(c.Ops[i])
		if (f[0] == "reopen" && strings.HasPrefix(o, "opened")) || (f[0] == "peek" && o != "refused") {
			restored = true
		}
	}
	return restored
}

func propC08() *lib.Prop {
	return &lib.Prop{
		ID:       "C08",
		Corr:     "Model/Ckpt.lean transition system (Lsm + WAL writer + checkpoint list + files) ↔ real dkv.DB Checkpoint / UpdateRetainedCheckpoints / Open on one MemoryFilesystem",
		Rule:     "trace validation: generated schedules of writes, gated flush/compaction steps, Checkpoint calls with their two asynchronous halves stepped separately, retention updates, crash + dkv.Open from a retained handle (same and fresh directory), continued writes and further checkpoints; every restore is scanned completely and compared with the model and with the map at the Checkpoint call; non-trivial = at least one restore happened",
		FeedImpl: true,
		NumCases: func(tier string) int {
			if tier == "thorough" {
				return 15000
			}
			return 1500
		},
		Fixed: func(string) []lib.Case { return c08Fixed() },
		Gen: func(r *lib.Rng, tier string, i int) lib.Case {
			n := r.Range(30, 140)
			if tier == "thorough" {
				n = r.Range(30, 320)
			}
			h := c07Header(r, "C08")
			if r.Chance(1, 3) {
				// a WAL limit close to the memtable size: rotations are then caused by either. (A much smaller limit
				// makes a restore rotate more often than the six tasks the flush queue can hold while the harness
				// keeps the flush tasks parked, and `Start` would block.)
				var mem int
				fmt.Sscanf(h[strings.Index(h, "mem=")+4:], "%d", &mem)
				h += fmt.Sprintf(" wal=%d", mem+lib.Pick(r, []int{0, 20, 60}))
			}
			big := r.Chance(1, 25)
			if big {
				n = r.Range(25, 60)
			}
			return lib.Case{Header: h, Ops: genC08Ops(r, n, big)}
		},
		Impl:       runC08Trace,
		Nontrivial: c08Nontrivial,
		MObs: func(op string) bool {
			return strings.HasPrefix(op, "bg ") || strings.HasPrefix(op, "cw ") || strings.HasPrefix(op, "cd ") ||
				strings.HasPrefix(op, "ckpt ") || strings.HasPrefix(op, "ckptrace ") || strings.HasPrefix(op, "retain ") || strings.HasPrefix(op, "hcd ") ||
				strings.HasPrefix(op, "hretain ") || strings.HasPrefix(op, "hretaind ") || op == "release" || op == "probe"
		},
	}
}
