package main

import (
	"flag"
	"fmt"
	"os"

	"verif/harness/lib"
)

var registry = map[string]func() *lib.Prop{}

func register(id string, f func() *lib.Prop) { registry[id] = f }

func main() {
	prop := flag.String("prop", "", "property id")
	tier := flag.String("tier", "quick", "quick|thorough")
	seed := flag.Uint64("seed", 1, "seed")
	driver := flag.String("driver", "/verif/lean/.lake/build/bin/driver", "lean driver exe")
	verif := flag.String("verif", "/verif", "verif root")
	out := flag.String("out", "", "result json")
	replay := flag.String("replay", "", "replay file")
	flag.Parse()
	f, ok := registry[*prop]
	if !ok {
		fmt.Fprintln(os.Stderr, "unknown property", *prop)
		os.Exit(2)
	}
	env := &lib.Env{Driver: *driver, Tier: *tier, Seed: *seed, Verif: *verif, Out: *out}
	p := f()
	if *replay != "" {
		os.Exit(lib.ReplayFile(p, env, *replay))
	}
	os.Exit(lib.Run(p, env))
}
